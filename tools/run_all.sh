#!/bin/bash
# run every check of a tier (default quick), three at a time; one summary line per property; exit 1 if any is not 0
tier=${1:-quick}
cd /verif
out=$(mktemp -d)
printf '%s\n' C01 C02 C03 C04 C05 C06 C07 C08 C09 C10 C11 C12 C13 C14 C15 C16 C17 C18 C19 C20 | \
  xargs -P 3 -I{} sh -c "./check {} --tier $tier > $out/{}.log 2>&1; echo \"{} rc=\$? \$(tail -n 1 $out/{}.log | cut -c1-150)\""
bad=$(grep -L "held on everything explored" $out/*.log | wc -l)
rm -rf $out
[ "$bad" = 0 ]

#!/venv/bin/python
"""Re-run the checks on every stored seeded change (regression of the checks themselves).

  tools/recheck_seeds.py [C01 C03 ...]      (default: all properties that have seeds)

For each /verif/seeded/<name>/ : scratch worktree of /repo HEAD + patch.diff, then ./check <P> --tier quick with
VERIF_REPO pointing at it (never /repo itself), for P = the property it breaks and every other check recorded in
its meta.json.  Properties run in parallel, the seeds of one property one after the other.  Writes
meta["recheck"] and prints one line per seed; exit 1 if a seed that was detected before is not detected any more.
"""
import concurrent.futures as cf
import json, os, shutil, subprocess, sys, tempfile, time
from pathlib import Path

SEEDED = Path("/verif/seeded")


def sh(cmd, **kw):
    return subprocess.run(cmd, shell=True, stdout=subprocess.PIPE, stderr=subprocess.STDOUT, text=True, **kw)


def one_property(pid, names):
    lines = []
    head = sh("git -C /repo log --format=%h -1").stdout.strip()
    for name in names:
        d = SEEDED / name
        meta = json.loads((d / "meta.json").read_text())
        checks = [pid] + [p for p in meta.get("check_results", {}) if p != pid]
        wt = tempfile.mkdtemp(prefix="recheck-")
        os.rmdir(wt)
        if sh(f"git -C /repo worktree add --detach {wt} HEAD").returncode:
            lines.append((name, "MACHINERY worktree"))
            continue
        res = {}
        try:
            if sh(f"git -C {wt} apply {d}/patch.diff").returncode:
                res = {"_": "patch-does-not-apply-at-" + head}
            else:
                for p in checks:
                    t0 = time.time()
                    c = sh(f"cd /verif && ./check {p} --tier quick", env=dict(os.environ, VERIF_REPO=wt))
                    res[p] = {"rc": c.returncode, "wall_s": round(time.time() - t0, 1),
                              "first_lines": [l for l in c.stdout.splitlines() if l.startswith("VIOLATION") or "failing-clause" in l][:4]}
                    shutil.rmtree(f"/verif/replay/{p}", ignore_errors=True)
        finally:
            sh(f"git -C /repo worktree remove --force {wt}")
            shutil.rmtree(wt, ignore_errors=True)
        det = any(isinstance(v, dict) and v.get("rc") == 1 for v in res.values())
        meta["recheck"] = {"repo_head": head, "results": res, "detected": det}
        (d / "meta.json").write_text(json.dumps(meta, indent=1))
        was = bool(meta.get("detected")) or any(v.get("rc") == 1 for v in meta.get("check_results", {}).values())
        lines.append((name, "detected" if det else ("NOT-DETECTED" + (" (REGRESSION)" if was else "")),
                      {p: v.get("rc") if isinstance(v, dict) else v for p, v in res.items()}))
    return lines


def main():
    want = set(sys.argv[1:])
    by = {}
    for d in sorted(SEEDED.iterdir()):
        if (d / "meta.json").exists():
            m = json.loads((d / "meta.json").read_text())
            p = m.get("breaks_property") or m.get("property")
            if not want or p in want:
                by.setdefault(p, []).append(d.name)
    bad = 0
    with cf.ThreadPoolExecutor(max_workers=4) as ex:
        for lines in ex.map(lambda kv: one_property(*kv), sorted(by.items())):
            for l in lines:
                print(*l, flush=True)
                if "REGRESSION" in l[1]:
                    bad += 1
    sh("cd /verif && git checkout -- evidence 2>/dev/null")
    return 1 if bad else 0


if __name__ == "__main__":
    sys.exit(main())

#!/venv/bin/python
"""Confirm a seeded change and try the check on it.

  tools/confirm_seed.py /tmp/seed/C15/C15_m1 C15 Test/CRN/Hypergraph [--keep-name NAME] [--tier quick]

1. scratch worktree of /repo HEAD: demo passes; with patch: demo fails, the given tests pass
2. apply patch to /repo, run ./check <pid>, revert /repo
3. copy patch.diff, demo.py, meta.json (+ what we ran, + detected?) to /verif/seeded/<name>/
"""
import json, os, shutil, subprocess, sys, tempfile, time
from pathlib import Path

src = Path(sys.argv[1]); pid = sys.argv[2]; tests = sys.argv[3]
name = src.name
tier = "quick"
args = sys.argv[4:]
if "--keep-name" in args:
    name = args[args.index("--keep-name") + 1]
if "--tier" in args:
    tier = args[args.index("--tier") + 1]
extra_pids = []
if "--also" in args:
    extra_pids = args[args.index("--also") + 1].split(",")

def sh(cmd, **kw):
    return subprocess.run(cmd, shell=True, stdout=subprocess.PIPE, stderr=subprocess.STDOUT, text=True, **kw)

wt = tempfile.mkdtemp(prefix="confirm-wt-")
os.rmdir(wt)
assert sh(f"git -C /repo worktree add --detach {wt} HEAD").returncode == 0
env = dict(os.environ, PYTHONPATH=wt, PYTHONWARNINGS="ignore")
res = {}
try:
    r = sh(f"cd /tmp && /venv/bin/python {src}/demo.py", env=env); res["demo_clean_rc"] = r.returncode
    a = sh(f"git -C {wt} apply {src}/patch.diff"); res["apply_rc"] = a.returncode
    if a.returncode:
        print(a.stdout)
    r = sh(f"cd /tmp && /venv/bin/python {src}/demo.py", env=env); res["demo_mutant_rc"] = r.returncode
    res["demo_mutant_out"] = r.stdout[-600:]
    t = sh(f"cd {wt} && /venv/bin/python -m pytest -q -p no:cacheprovider -x {tests} 2>&1 | tail -3", env=env)
    res["tests_cmd"] = f"pytest -q -x {tests}"; res["tests_tail"] = t.stdout.strip().splitlines()[-1] if t.stdout.strip() else ""
    res["tests_pass"] = (" passed" in res["tests_tail"] and "failed" not in res["tests_tail"] and "error" not in res["tests_tail"])
finally:
    sh(f"git -C /repo worktree remove --force {wt}")
    shutil.rmtree(wt, ignore_errors=True)
confirmed = res["demo_clean_rc"] == 0 and res["apply_rc"] == 0 and res["demo_mutant_rc"] != 0 and res["tests_pass"]
res["confirmed"] = confirmed
print(json.dumps({k: v for k, v in res.items() if k != "demo_mutant_out"}))
if not confirmed:
    print("NOT CONFIRMED"); sys.exit(3)
# --- run the checks against a scratch worktree that carries the patch (never /repo itself) ---
det = {}
wt2 = tempfile.mkdtemp(prefix="confirm-run-")
os.rmdir(wt2)
assert sh(f"git -C /repo worktree add --detach {wt2} HEAD").returncode == 0
try:
    assert sh(f"git -C {wt2} apply {src}/patch.diff").returncode == 0
    env2 = dict(os.environ, VERIF_REPO=wt2)
    for p in [pid] + extra_pids:
        t0 = time.time()
        c = sh(f"cd /verif && ./check {p} --tier {tier}", env=env2)
        lines = [l for l in c.stdout.splitlines() if l.startswith("VIOLATION") or "failing-clause" in l][:6]
        det[p] = {"rc": c.returncode, "wall_s": round(time.time() - t0, 1), "first_lines": lines}
        if c.returncode not in (0, 1):
            det[p]["tail"] = c.stdout[-1500:]
finally:
    sh(f"git -C /repo worktree remove --force {wt2}")
    shutil.rmtree(wt2, ignore_errors=True)
    shutil.rmtree("/verif/replay", ignore_errors=True)
print(json.dumps(det, indent=1))
out = Path("/verif/seeded") / name
out.mkdir(parents=True, exist_ok=True)
for f in ("patch.diff", "demo.py"):
    shutil.copy(src / f, out / f)
meta = json.loads((src / "meta.json").read_text()) if (src / "meta.json").exists() else {}
meta.update({"breaks_property": pid, "confirmation": {k: v for k, v in res.items()}, "check_results": det,
             "detected": det.get(pid, {}).get("rc") == 1, "tier": tier})
(out / "meta.json").write_text(json.dumps(meta, indent=1))
# evidence files were rewritten by the mutant runs: restore from git if tracked
sh("cd /verif && git checkout -- evidence 2>/dev/null")

#!/venv/bin/python
"""Regenerate MANIFEST.json from the table below (keeps it valid at all times)."""
import json
from pathlib import Path

VERIF = Path(__file__).resolve().parent.parent
ALL = [f"C{i:02d}" for i in range(1, 21)]

BASE_NOTE = ("Trusted: TLC 1.8 + CommunityModules Json/IOUtils, CPython 3.12, the projection code in harness/props "
             "(reads public return values/attributes only). Bounds and sample sizes are in the evidence file.")

CLAIMED = {
 "C15": dict(
   text="TLC model-checks the two-store state machine MC_CRNStore exhaustively at small bounds (StoresOK, StepConforms, "
        "Durable, CopyIsolated) and validates every call of recorded histories of the real CRNHyperGraph against the same "
        "transition relation (CRNStore!StepClauses) plus the derived-index clauses: all command sequences up to depth 3 (quick) / 4 "
        "(thorough) over a 26-command alphabet on two stores, sampled depth-5 and random 60-call histories over a larger alphabet. "
        "This is the right level because the property quantifies over edit histories of a small abstract state.",
   ref="DESIGN.md §3 C15",
   technique="TLA+ state machine + TLC model checking; trace validation of real CRNHyperGraph histories by TLC"),
 "C17": dict(
   text="TLC enumerates all networks over 3 species (<=2 reactions, coefficients 0..2; quick: <=1 reaction plus unit-coefficient pairs) and the "
        "outputs of build_S, incidence_matrix, stoichiometric_rank, left/right_nullspace, is_conservative, compute_conservativity, is_consistent "
        "and summary recorded from the real code are judged by TLC against exact integer linear algebra written in TLA+ (Bareiss rank, "
        "Stiemke certificates verified by TLC, TLC's own box search on the small domain, the alternative checked as a lemma); plus textbook and random 7x6 networks.",
   ref="DESIGN.md §3 C17",
   technique="TLA+ theory module (exact linear algebra) + TLC-enumerated inputs replayed into the code + TLC judging recorded outputs with verified certificates"),
 "C19": dict(
   text="TLC enumerates all networks over 3 species with <=3 unit-coefficient reactions and <=2 (quick: 1) reactions with coefficients 0..2; "
        "DeficiencyAnalyzer outputs recorded from the real code are judged by TLC against the TLA+ definitions of complexes, linkage classes, "
        "weak reversibility, exact rank and (linkage) deficiency; plus textbook and random 6x6 networks.",
   ref="DESIGN.md §3 C19",
   technique="TLA+ theory module + TLC-enumerated inputs replayed into the code + TLC judging recorded outputs"),
 "C20": dict(
   text="TLC enumerates all unit-coefficient networks over 3 species with <=3 reactions; find_siphons/find_traps, PetriNet.enabled/fire and "
        "is_realizable (verdict and firing sequence, also after other queries on the same object) recorded from the real code are judged by TLC "
        "against the TLA+ Petri semantics (minimal siphons/traps by subset enumeration, reachability closure); TLC also explores the extended "
        "Petri nets natively (MC_Petri: non-negativity, state equation, agreement lemma).",
   ref="DESIGN.md §3 C20",
   technique="TLA+ Petri-net state machine model-checked by TLC + TLC judging recorded outputs/certificates of the real code"),
 "C06": dict(
   text="TLC enumerates all labelled graphs up to isomorphism (GraphGen: <=3 nodes over 2 elements x hcount{0,1} x 2 bond orders; 4 and 5-node hosts "
        "over reduced alphabets); every (pattern, host) pair is realised as networkx objects with random node ids/insertion orders and searched with "
        "strategies all/comp/bt, strict on/off, pre_filter, max_results 1/2, threshold 1/3; TLC judges each returned list against LGraph!Monos / "
        "CompMonos / BtMonos (exact sets, duplicates, truncation and threshold rules, inputs unchanged); plus random hosts <=9 nodes with planted patterns.",
   ref="DESIGN.md §3 C06",
   technique="TLA+ theory of labelled-graph monomorphisms + TLC-enumerated graphs replayed into the code + TLC judging recorded results"),
 "C12": dict(
   text="All pairs of TLC-enumerated labelled graphs <=3 nodes (thorough: exhaustive; quick: sample), pairs with 4-node graphs and random pairs up to 6x7 "
        "with planted common parts are given to both MCSMatcher implementations; TLC verifies every returned mapping (injective, labels, bonds and orders "
        "both ways), recomputes the maximum common induced subgraph size by back-tracking (LGraph!MCSSize) and checks that the two directions are inverse.",
   ref="DESIGN.md §3 C12",
   technique="TLA+ theory (common induced subgraphs) + TLC-enumerated graphs replayed into the code + TLC judging recorded mappings"),
 "C13": dict(
   text="Cluster.tla models incremental classification against a library as a state machine; TLC checks PartitionOK over all arrival histories (3 classes, "
        "8 initial libraries incl. pruned/non-contiguous ids) and exports every history; each is replayed into GraphCluster.fit and BatchCluster.fit/cluster/"
        "lib_check (batch sizes 1,2,all) with concrete look-alike graphs (one bond order / one charge changed, relabelled copies) and TLC judges "
        "'same class <=> isomorphic' with its own isomorphism search; plus longer random multisets.",
   ref="DESIGN.md §3 C13",
   technique="TLA+ state machine model-checked by TLC; TLC-generated histories replayed into the code; TLC judges the recorded partitions"),
 "C16": dict(
   text="TLC enumerates all networks over 3 species with <=2 (possibly repeated) reactions and coefficients 0..2 (quick 0..1) plus all single reactions with "
        "coefficients 0..3; exports/imports through the bipartite graph (string/integer ids, with/without edge ids, mol labels, custom prefixes), reaction "
        "strings and the species graph are recorded from the real code and judged by TLC against the TLA+ definition of the views (exact arc set, ids, rules, "
        "coefficients, mol labels; bag equality where ids are not claimed); plus random networks up to 8 species / 10 reactions with multi-digit coefficients.",
   ref="DESIGN.md §3 C16",
   technique="TLA+ theory of network views + TLC-enumerated networks replayed into the code + TLC judging recorded round trips"),
 "C07": dict(
   text="MatcherSession.tla models query histories of engines with different attribute selections sharing one histogram cache; TLC proves AnswerIsPure for the "
        "contract (cache keyed by object and selection) and must find the counterexample for a cache keyed by the object only; Apalache discharges an "
        "inductive invariant for an unbounded number of queries (and must fail it for the object-keyed cache). Conformance: sessions of 60+ "
        "queries (isomorphic in both argument orders, get_mappings, graph_isomorphism, find_graph_isomorphism, three boolean subgraph tests, every filter "
        "flag on/off, induced and monomorphism mode, two attribute selections) run in random order on SHARED networkx objects built from all TLC-enumerated "
        "graph pairs <=2 nodes (exhaustive), sampled pairs <=3/4 nodes, random pairs <=8 nodes with relabelled copies and one-edit neighbours, plus targeted "
        "query histories; TLC judges every answer against LGraph (IsosHostRule, IsIso, Embeddings, Monos) and checks filter invariance.",
   ref="DESIGN.md §3 C07",
   technique="TLA+ state machine of query histories model-checked by TLC (bounded) and Apalache (inductive invariant) + TLC judging recorded query sessions of the real engines"),
 "C08": dict(
   text="Families of networkx objects (a TLC-enumerated graph, relabelled copies with shuffled insertion orders, one-edit look-alikes, another graph) are "
        "canonicalised by every back-end (generic, wl, morgan, nauty; wrapper hash and canonical_signature; NautyCanonicalizer directly; SynGraph equality); "
        "TLC verifies faithfulness through the recovered relabelling (LGraph!Relabel), determinism, soundness (equal signatures => IsIso) and, for the exact "
        "back-end, invariance (IsIso => equal signature and identical canonical graph; wrapper equality <=> IsIso). All graphs <=3 nodes exhaustively, 4 (5 "
        "thorough) nodes, symmetric families (cycles, K23, K33, cube, C3+C4 traps) and random graphs <=9 nodes. The rule wrapper SynRule (nauty back-end) is judged the same way "
        "(== / hash <=> IsIso of the reaction centres), on families that also contain a re-paired member (both sides isomorphic, the rule not).",
   ref="DESIGN.md §3 C08",
   technique="TLA+ theory (relabelling, isomorphism) + TLC-enumerated graphs replayed into the code + TLC judging recorded canonical forms/signatures"),
 "C01": dict(
   text="ITS.tla defines MkITS / decomposition / FoldEq. TLC enumerates every reactant/product graph pair on 2 atoms (3 elements incl. H, hcount and charge per "
        "side, orders 0/1/2 per side) and on 3 atoms (reduced alphabet); each pair is realised as networkx graphs with shuffled ids, insertion order and "
        "edge orientation and pushed through ITSGraph / construct (store, balance_its variants) and its_decompose; corpus reactions (374 vendored) and "
        "their renumberings / re-rootings / fragment shuffles / reversals go through rsmi_to_graph, rsmi_to_its, its_decompose, its_to_rsmi. TLC judges "
        "union of atoms and bonds, (before, after) pairs, stored difference, exact decomposition, atom-map equivalence after hydrogen folding and equal "
        "unmapped sides.",
   ref="DESIGN.md §3 C01",
   technique="TLA+ theory of ITS graphs + TLC-enumerated graph pairs replayed into the code + TLC judging recorded ITS/decompositions/round trips"),
 "C02": dict(
   text="On the same TLC-enumerated pairs (2 and 3 atoms, incl. hydrogen atoms), random pairs up to 8 atoms with unchanged H-H bonds, and the corpus with "
        "renumbered / re-rooted variants, get_rc, get_rc(get_rc), RadiusExpand.extract_k(k=0..3) and the centre of the renumbered reaction are recorded and "
        "judged by TLC against ITS!RCEdges / RCNodes / ContextNodes / InducedEdges (exact bond and atom sets, copied labels, idempotence, nesting, "
        "numbering independence).",
   ref="DESIGN.md §3 C02",
   technique="TLA+ theory of ITS graphs + TLC-enumerated graph pairs replayed into the code + TLC judging recorded centres/contexts"),
 "C11": dict(
   text="All TLC-enumerated labelled graphs (<=3 nodes over 3 labels, 4 nodes over 2 labels; thorough: <=4 over 3 labels and 5 nodes), symmetric families "
        "and random connected/disconnected graphs <=9 nodes: Automorphism.n_automorphisms/orbits and AutoEst.orbits are judged by TLC against LGraph!Autos "
        "(per-component product and orbits, estimate must coarsen the full-group orbits); deduplicate_matches_with_anchor on search results (with pattern "
        "orbits, anchors, host orbits, partial matches) must return an order-preserving sub-list. The clause about symmetry pruning during rule application "
        "is decided with the rule-application machinery of C05 (judge C05Cases, claim C11), in the default and in the exact pruning mode; a lost reaction is "
        "accepted as the recorded known finding only when the result equals what Prune.tla (the pruning algorithm as implemented) computes from the raw matches. "
        "Every graph is also analysed after a rewired look-alike on the same node ids (class-level caches).",
   ref="DESIGN.md §3 C11",
   technique="TLA+ theory (automorphisms, orbits) + TLC-enumerated graphs replayed into the code + TLC judging recorded results"),
 "C18": dict(
   text="The bipartite and species views are DEFINED in TLA+ from the abstract network (C18Cases!BipView / SpView); families (a TLC-enumerated network over 3 "
        "species and <=2 reactions, renamed / reordered / re-identified copies, a look-alike) are analysed by CRNCanonicalizer and CRNAutomorphism on one "
        "shared hypergraph object per network under all four (view, stoichiometry) configurations in varying order; TLC judges: view used by the code is the "
        "view of the network, canonical graph isomorphic to it, identical canonical graphs <=> isomorphic views, automorphism counts and orbits equal to "
        "LGraph!Autos / Orbits on directed labelled graphs; plus rings of identical reactions and random networks up to 6 species / 5 reactions.",
   ref="DESIGN.md §3 C18",
   technique="TLA+ definition of the network views and digraph automorphisms + TLC-enumerated networks replayed into the code + TLC judging recorded results"),
 "C03": dict(
   text="Rule.tla defines rule application on ITS graphs (Apply at a match, hydrogen folding, the graph of changed bonds, conservation). Textbook templates "
        "(19 vendored, implicit- and explicit-H) on several substrates and corpus-derived templates (centre or full ITS) on own and foreign corpus substrates, "
        "forward/backward, strategies all/comp/bt, implicit-H and explicit-H modes: every graph of SynReactor.its_list that is returned as a reaction is judged "
        "by TLC: substrate side unchanged (after folding), elements/hydrogens/charge conserved for balanced centres and always equal to the rule's own change, "
        "changed-bond graph isomorphic to the rule's, and (implicit mode) node-for-node equality with Rule!Apply at the logged match.",
   ref="DESIGN.md §3 C03",
   technique="TLA+ theory of rule application + TLC judging recorded SynReactor results (preconditions decided by the spec)"),
 "C04": dict(
   text="For textbook and corpus reactions and their renumberings / re-rootings / fragment shuffles, the own template (centre and full ITS) is applied forward to "
        "the unmapped reactants and backward to the unmapped products under all/comp/bt in the mode paired with the reaction's hydrogen writing; TLC decides "
        "the preconditions from the reaction's ITS (balanced, centre hydrogens consistent, no spectator explicit hydrogen, changes inside the centre for centre "
        "templates, the documented strict_cc_count guard of the comp strategy) and requires the reaction among the results; a failure is attributed to the known "
        "pruning finding only if the raw-match replay regenerates it and the returned set equals Prune!ModelResult (the pruning as implemented).",
   ref="DESIGN.md §3 C04",
   technique="TLA+ preconditions and judgement by TLC over recorded SynReactor outputs; raw-match replay for diagnosis"),
 "C05": dict(
   text="Each (template, substrate) pair (textbook and corpus, own and foreign, centre/full, forward/backward) is written in several ways (template atom maps "
        "permuted and re-rooted, substrate SMILES re-rooted and fragment-shuffled, repeated call); for every writing the distinct reactions under all/comp/bt and the "
        "reactions obtained by applying the rule at every raw match are recorded; TLC checks equality of the sets across writings, comp within all, bt = comp when "
        "non-empty, and the same for the raw sets (as written, or after every bond is written single: Kekule placement of a de-aromatised ring is not a "
        "different reaction). Differences that exist only in the pruned sets are the recorded known finding only if every pruned set equals Prune!ModelResult.",
   ref="DESIGN.md §3 C05",
   technique="TLC judging recorded result sets of metamorphic variants; raw-match replay separates the known pruning finding"),
 "C09": dict(
   text="Corpus and textbook reactions: CanonRSMI (wl, nauty) output is verified by TLC to be atom-map equivalent to the input (ITS!FoldEq through a VF2-proposed "
        "renaming), to keep the unmapped sides, to be a fixed point and - when 3 rounds of colour refinement separate all reactant atoms - to be identical for "
        "renumbered/re-rooted writings; Standardize.fit idempotent and identical across writings; AAMValidator.smiles_check (RC and ITS) compared with LGraph!IsIso "
        "computed by TLC on the two centres for renumbered mappings and for mappings with two centre atoms transposed; rsmi_balance_check compared with the element "
        "bag (with hydrogens) and charge computed by TLC, on balanced reactions and variants with a fragment deleted/duplicated or a charge changed.",
   ref="DESIGN.md §3 C09",
   technique="TLA+ theory (ITS folding, isomorphism, element bags) + TLC judging recorded outputs of the real code"),
 "C10": dict(
   text="300+ molecules (vendored diverse list and all corpus fragments): smiles_to_graph and graph_to_smi are compared atom by atom with RDKit's own reading "
        "(aligned by atom maps), h_to_explicit / h_to_implicit are judged with ITS!FoldEq, TotalH and exact restoration; for corpus reactions and renumberings the GML "
        "text of ten export routes (smart_to_gml / its_to_gml, full ITS or centre supplied, core/full, reindex on/off) is parsed by an independent reader and "
        "compared by TLC with the rule defined from the reaction's ITS (C10Cases!CoreRule / FullRule: equality when ids are kept, isomorphism when re-indexed), "
        "and gml_to_its(its_to_gml(centre)) must give the same rule.",
   ref="DESIGN.md §3 C10",
   technique="TLA+ definition of the rule of a reaction + TLC judging recorded conversions (RDKit and a GML reader as projections)"),
 "C14": dict(
   text="Batch.tla models the per-process result cache with an explicit allocator (addresses are freed and re-used); TLC proves ResultIsPure when the cache pins "
        "its keys and must find the stale-hit counterexample for a cache keyed by the bare address. Conformance: BatchReactor.fit on batches of 150 (thorough 400) "
        "entries repeating a few look-alike substrates, cache on/off, cache sizes 1-3, 1-8 worker processes, is compared per entry by TLC with SynReactor on "
        "that entry alone (as a set) and with the first configuration (as a list up to order, incl. rule-parallel configurations and a repeated rule); "
        "AAMValidator.validate_smiles and dicts_balance_check (rows with their own fields) with 1 vs 4 jobs and SynCRN expansion serial vs parallel must agree; "
        "batched versus one-shot clustering is judged by C13Cases. The expansion loop is a state machine of its own (Expansion.tla): MC_Expansion is model-checked "
        "over every chemistry of a small universe, its behaviours are replayed into the real SynCRN with scripted chemistry, and recorded serial/parallel histories of "
        "real chemistry are validated by ExpansionTrace (differences between schedules are violations, non-conformance to the spec is a SPEC-DEVIATION). "
        "Apalache discharges an inductive invariant of the pinned cache for an unbounded number of operations.",
   ref="DESIGN.md §3 C14",
   technique="TLA+ state machines (cache + allocator; expansion loop) model-checked by TLC, inductive invariant by Apalache; TLC judging recorded batch runs, "
             "schedules and expansion histories; TLC behaviours replayed into the real class"),
}

NOT_YET = "check not built yet (work in progress; planned with the same TLA+/TLC technique, see DESIGN.md §3)"


def main():
    m = {
        "version": 1,
        "setup_cmd": "./check --setup",
        "hooks": {
            "guard": "SYNKIT_VERIF",
            "enable": "no source hook is needed: every observation point is a public return value or attribute (or is wrapped "
                      "in-process by the harness); checks import synkit from /repo's working tree",
            "baseline_off_cmd": "cd /repo && /venv/bin/python -m pytest -ra -q -p no:cacheprovider --timeout=900 --continue-on-collection-errors",
            "source_commits": [],
            "add_only": True,
        },
        "engines": [{"name": "tlc", "path": "/opt/veriftools/tla/tla2tools.jar", "serves_properties": sorted(CLAIMED),
                     "kind_free_text": "TLA+ specifications in spec/ checked by TLC; harness/ drives the real code and feeds recorded calls to TLC"}],
        "checks": [],
        "not_applicable": [],
        "notes": "All checks: ./check <id> --tier quick|thorough ; replay: ./check <id> --replay <file>. Exit 0 held / 1 VIOLATION / 2 machinery failure.",
    }
    for pid in ALL:
        if pid in CLAIMED:
            c = CLAIMED[pid]
            m["checks"].append({
                "property_id": pid,
                "quick_cmd": f"./check {pid} --tier quick",
                "thorough_cmd": f"./check {pid} --tier thorough",
                "evidence_file": f"evidence/{pid}.json",
                "replay_cmd_template": f"./check {pid} --replay {{path}}",
                "engine": "tlc",
                "level_claimed": {"category": "model_checking", "text": c["text"], "design_ref": c["ref"]},
                "level_note": c.get("note", BASE_NOTE),
                "technique": c["technique"],
            })
        else:
            m["not_applicable"].append({"property_id": pid, "reason": NOT_YET})
    (VERIF / "MANIFEST.json").write_text(json.dumps(m, indent=1) + "\n")
    print("claimed:", sorted(CLAIMED))


if __name__ == "__main__":
    main()

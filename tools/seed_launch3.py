#!/venv/bin/python
"""Third-round seeding prompt: same as seed_launch.py plus the list of earlier mutation summaries to avoid."""
import json, subprocess, sys, glob
from pathlib import Path
pid, n = sys.argv[1], sys.argv[2]
out = f"/tmp/seed3/{pid}"
wt = out + "/wt"
Path(out).mkdir(parents=True, exist_ok=True)
if not Path(wt).exists():
    subprocess.run(["git", "-C", "/repo", "worktree", "add", "--detach", wt, "HEAD"], check=True, stdout=subprocess.DEVNULL)
p = [json.loads(l) for l in open("/verif/properties.jsonl") if json.loads(l)["id"] == pid][0]
t = open("/verif/tools/seed_prompt.txt").read()
txt = t.format(WT=wt, OUT=out, PID=pid, TITLE=p["title"], STATEMENT=p["statement"], QUANT=p["quantifier"]["text"],
               FILES=", ".join(p["anchors"]["files"]), N=n, TESTS="")
prev = []
for d in sorted(glob.glob(f"/verif/seeded/{pid}_m*") + glob.glob(f"/verif/seeded/{pid}_r2m*")):
    m = json.load(open(d + "/meta.json"))
    prev.append("- " + m.get("summary", "")[:400])
txt += "\n\nEARLIER MUTATIONS (already collected for this property - produce DIFFERENT ones, touching other mechanisms, other functions or other clauses of the property):\n" + "\n".join(prev) + "\n"
print(txt)

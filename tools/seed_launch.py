#!/venv/bin/python
"""Print the prompt for a seeding sub-agent and create its worktree:  tools/seed_launch.py C15 3 Test/CRN"""
import json, subprocess, sys
from pathlib import Path
pid, n, tests = sys.argv[1], sys.argv[2], sys.argv[3]
tag = sys.argv[4] if len(sys.argv) > 4 else ""
wt = f"/tmp/seed/{pid}{tag}/wt"
out = f"/tmp/seed/{pid}{tag}"
Path(out).mkdir(parents=True, exist_ok=True)
if not Path(wt).exists():
    subprocess.run(["git", "-C", "/repo", "worktree", "add", "--detach", wt, "HEAD"], check=True, stdout=subprocess.DEVNULL)
p = None
for l in open("/verif/properties.jsonl"):
    d = json.loads(l)
    if d["id"] == pid:
        p = d
t = open("/verif/tools/seed_prompt.txt").read()
print(t.format(WT=wt, OUT=out, PID=pid, TITLE=p["title"], STATEMENT=p["statement"], QUANT=p["quantifier"]["text"],
               FILES=", ".join(p["anchors"]["files"]), N=n, TESTS=tests))

#!/venv/bin/python
"""Re-introduce a repaired defect (reverse-apply its fix commit in /repo's working tree), run the check, restore.
   tools/revert_fix_check.py <commit> <PID> [tier]"""
import subprocess, sys, json, shutil
c, pid = sys.argv[1], sys.argv[2]
tier = sys.argv[3] if len(sys.argv) > 3 else "quick"
def sh(x): return subprocess.run(x, shell=True, stdout=subprocess.PIPE, stderr=subprocess.STDOUT, text=True)
assert sh("git -C /repo status --porcelain").stdout.strip() == "", "repo dirty"
try:
    r = sh(f"git -C /repo show {c} | git -C /repo apply -R")
    assert r.returncode == 0, r.stdout
    out = sh(f"cd /verif && ./check {pid} --tier {tier}")
    lines = [l for l in out.stdout.splitlines() if "failing-clause" in l][:4]
    print(json.dumps({"reverted_fix": c, "property": pid, "rc": out.returncode, "first": lines}, indent=1))
finally:
    sh("git -C /repo checkout -- .")
    shutil.rmtree("/verif/replay", ignore_errors=True)
    sh("cd /verif && git checkout -- evidence 2>/dev/null")

#!/venv/bin/python
"""Re-introduce repaired defects and run the checks: every 'fixed' entry of known_findings.json (or the commits given)
is reverse-applied in a scratch worktree of /repo (never /repo itself) and ./check <property> --tier quick must exit 1.
   tools/revert_fix_check.py [<commit> <PID>]"""
import json, os, shutil, subprocess, sys, tempfile

def sh(x, **kw):
    return subprocess.run(x, shell=True, stdout=subprocess.PIPE, stderr=subprocess.STDOUT, text=True, **kw)

pairs = []
if len(sys.argv) >= 3:
    pairs = [(sys.argv[1], sys.argv[2])]
else:
    d = json.load(open("/verif/known_findings.json"))
    fl = d["findings"] if isinstance(d, dict) else d
    pairs = [(f["commit"], f["property"]) for f in fl if f["status"] == "fixed"]
bad = 0
for c, pid in pairs:
    wt = tempfile.mkdtemp(prefix="revert-")
    os.rmdir(wt)
    assert sh(f"git -C /repo worktree add --detach {wt} HEAD").returncode == 0
    try:
        r = sh(f"cd {wt} && git show {c} | git apply -R")
        if r.returncode:
            print(json.dumps({"reverted_fix": c, "property": pid, "rc": "revert-does-not-apply"}))
            continue
        out = sh(f"cd /verif && ./check {pid} --tier quick", env=dict(os.environ, VERIF_REPO=wt))
        lines = [l.strip() for l in out.stdout.splitlines() if "failing-clause" in l][:2]
        print(json.dumps({"reverted_fix": c, "property": pid, "rc": out.returncode, "first": lines}), flush=True)
        bad += out.returncode != 1
    finally:
        sh(f"git -C /repo worktree remove --force {wt}")
        shutil.rmtree(wt, ignore_errors=True)
        shutil.rmtree(f"/verif/replay/{pid}", ignore_errors=True)
sh("cd /verif && git checkout -- evidence 2>/dev/null")
sys.exit(1 if bad else 0)

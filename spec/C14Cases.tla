------------------------------ MODULE C14Cases ------------------------------
(***************************************************************************)
(* C14: batching, parallelism and caching are operational only.            *)
(* kind "batch": [entries |-> << [solo |-> <<per-rule result lists>>] >>,    *)
(*                runs |-> << [cfg, out |-> <<per-entry result lists>>] >>]   *)
(*   solo[r] : SynReactor on that entry alone with rule r                    *)
(*   out[e]  : BatchReactor.fit(...) for entry e under configuration cfg      *)
(* kind "same": [what, a, b] two ways of computing one thing (serial vs        *)
(*   parallel validation / balance check / network expansion): must be equal   *)
(***************************************************************************)
EXTENDS Naturals, Sequences, FiniteSets, TLC, Json, IOUtils

Cases == ndJsonDeserialize(IOEnv.CASES)

Set(s) == {s[k] : k \in DOMAIN s}
RECURSIVE Flat(_)
Flat(ss) == IF ss = <<>> THEN <<>> ELSE Head(ss) \o Flat(Tail(ss))
Expected(e) == Set(Flat(e.solo))            \* rules applied one after the other, duplicates removed

Count(s, x) == Cardinality({k \in DOMAIN s : s[k] = x})
SameBag(s, t) == Len(s) = Len(t) /\ \A k \in DOMAIN s : Count(s, s[k]) = Count(t, s[k])

RECURSIVE RunsFrom(_, _)
RunsFrom(c, k) ==
   IF k > Len(c.runs) THEN "ok"
   ELSE LET r == c.runs[k]
            bad == {e \in DOMAIN c.entries : e > Len(r.out) \/ Set(r.out[e]) # Expected(c.entries[e])}
            v == IF Len(r.out) # Len(c.entries) THEN r.cfg \o ":wrong-number-of-entries"
                 ELSE IF bad # {} THEN r.cfg \o ":entry-result-differs-from-applying-the-rules-to-it-alone"
                 (* the configuration is operational only: the same list, up to order, as under the first configuration *)
                 ELSE IF \E e \in DOMAIN c.entries : ~SameBag(r.out[e], c.runs[1].out[e]) THEN r.cfg \o ":entry-result-list-differs-from-the-first-configuration's"
                 ELSE "ok"
            rest == RunsFrom(c, k + 1)
        IN IF v = "ok" THEN rest ELSE IF rest = "ok" THEN v ELSE v \o ";" \o rest

Verdict(c) ==
   IF c.kind = "batch" THEN RunsFrom(c, 1)
   ELSE IF c.a = c.b THEN "ok" ELSE c.what \o ":serial-and-parallel-results-differ"

VARIABLE i
Init == i = 0
Next == /\ i < Len(Cases)
        /\ i' = i + 1
        /\ PrintT("V|" \o ToString(i + 1) \o "|" \o Verdict(Cases[i + 1]))
=============================================================================

SPECIFICATION Spec
CONSTRAINT Bound
INVARIANT StoresOK
PROPERTY StepConforms
PROPERTY Durable
PROPERTY CopyIsolated
CHECK_DEADLOCK FALSE
VIEW View

--------------------------- MODULE ExpansionTrace ---------------------------
(***************************************************************************)
(* Validates histories recorded from the real SynCRN.build against the     *)
(* transition system of Expansion.tla.  One ndjson line = one case:        *)
(*   [cfg, runs |-> << run >>, expect (optional)]                          *)
(*   run = [mode, seeds, init |-> snap,                                    *)
(*          steps |-> << [tasks, seen, ran, results, post |-> snap] >>]    *)
(*   snap = [pool, frontier, nodes, edges, delta, seen]  (sets as lists)   *)
(*   tasks   : what _make_tasks_for_step returned, as <<rule, mixture>>    *)
(*   results : what _run_tasks returned, as [r, mix, prods]                *)
(* The runs of one case are the same build under different schedules       *)
(* (serial, parallel with k workers): each must be a behaviour of the      *)
(* spec, they must agree on the chemistry, and end in the same network.    *)
(* `expect` is the final network TLC computed for a behaviour of           *)
(* MC_Expansion that was replayed into the code (spec -> code direction).  *)
(* Verdict: "ok", run<a>(mode):<clause> for a difference between          *)
(* schedules (that is property C14), or note:Expansion.tla:... when the    *)
(* history is not a behaviour of the specification (a deviation from the   *)
(* spec, reported but not a violation of a listed property).               *)
(***************************************************************************)
EXTENDS Expansion, Json, IOUtils

Cases == ndJsonDeserialize(IOEnv.CASES)

ToState(j) == [pool |-> Range(j.pool), frontier |-> Range(j.frontier), seen |-> Range(j.seen), delta |-> Range(j.delta),
               nodes |-> j.nodes, edges |-> Range(j.edges)]
(* the caps can never have cut anything: even |pool|^arity mixtures per rule stay below them *)
RECURSIVE Pow(_, _)
Pow(b, e) == IF e = 0 THEN 1 ELSE b * Pow(b, e - 1)
Uncapped(cfg, st) ==
   LET n == Cardinality(st.pool)
   IN /\ \A r \in 1..Len(cfg.arity) : cfg.arity[r] <= 4 /\ Pow(n, cfg.arity[r]) <= cfg.capMix
      /\ \/ Len(cfg.arity) * Pow(n, 4) <= cfg.capTasks
         \/ (\A r \in 1..Len(cfg.arity) : cfg.arity[r] <= 2) /\ Len(cfg.arity) * n * n <= cfg.capTasks

(* the clauses comparing an observed snapshot with the state the spec computes *)
Same(tag, exp, got) ==
   << <<tag \o "pool", got.pool = exp.pool>>,
      <<tag \o "frontier", got.frontier = exp.frontier>>,
      <<tag \o "attempted-set", got.seen = exp.seen>>,
      <<tag \o "recorded-changes", got.delta = exp.delta>>,
      <<tag \o "nodes-and-their-ids", got.nodes = exp.nodes>>,
      <<tag \o "arcs", got.edges = exp.edges>> >>

StepVerdict(cfg, st, k, s, last) ==
   LET mt   == MakeTasks(st, cfg)
       st1  == [st EXCEPT !.seen = mt.seen]
       post == ToState(s.post)
   IN IF ~Continue(st, cfg, k) THEN "made-tasks-although-build-must-stop"
      ELSE IF s.tasks # mt.tasks THEN "tasks-differ-from-MakeTasks"
      ELSE IF Range(s.seen) # mt.seen THEN "attempted-set-after-MakeTasks"
      ELSE IF mt.tasks = <<>> THEN (IF s.ran \/ ~last THEN "continued-with-no-task" ELSE "ok")
      ELSE IF ~s.ran THEN "stopped-with-tasks-pending"
      ELSE FirstFail(
         << <<"one-result-per-task-in-task-order",
                /\ Len(s.results) = Len(mt.tasks)
                /\ \A i \in 1..Len(mt.tasks) : s.results[i].r = mt.tasks[i][1] /\ s.results[i].mix = mt.tasks[i][2]>> >>
         \o Same("after-integrate:", Integrate(st1, cfg, k, s.results), post)
         \o << <<"well-formed-network", WellFormed(post, cfg)>> >>)

RECURSIVE Walk(_, _, _, _)
Walk(cfg, run, st, k) ==
   IF k > Len(run.steps)
   THEN (IF Len(run.steps) > 0 /\ run.steps[Len(run.steps)].ran /\ Continue(st, cfg, k)
         THEN "step" \o ToString(k) \o ":build-returned-although-it-must-continue"
         ELSE IF Len(run.steps) = 0 /\ Continue(st, cfg, 1) THEN "step1:build-returned-although-it-must-continue"
         ELSE IF k <= cfg.repeats /\ Uncapped(cfg, st) /\ ~Complete(st, cfg) THEN "end:some-mixture-never-offered-to-a-rule"
         ELSE "ok")
   ELSE LET s == run.steps[k]
            v == StepVerdict(cfg, st, k, s, k = Len(run.steps))
        IN IF v # "ok" THEN "step" \o ToString(k) \o ":" \o v
           ELSE Walk(cfg, run, IF s.ran THEN ToState(s.post) ELSE [st EXCEPT !.seen = Range(s.seen)], k + 1)

RunVerdict(cfg, run) ==
   LET st0 == InitPool(run.seeds)
       v0  == FirstFail(Same("after-init:", st0, ToState(run.init)))
   IN IF v0 # "ok" THEN v0 ELSE Walk(cfg, run, st0, 1)

FinalOf(run) == IF \E k \in DOMAIN run.steps : run.steps[k].ran
                THEN LET K == CHOOSE k \in DOMAIN run.steps : run.steps[k].ran /\ \A j \in DOMAIN run.steps : run.steps[j].ran => j <= k
                     IN run.steps[K].post
                ELSE run.init
FinalSeen(run) == IF Len(run.steps) = 0 THEN Range(run.init.seen) ELSE Range(run.steps[Len(run.steps)].seen)
Net(j) == [pool |-> Range(j.pool), nodes |-> j.nodes, edges |-> Range(j.edges)]

(* chemistry: what a rule proposed for a mixture, as observed *)
Chem(run) == {<<res.r, res.mix, res.prods>> : res \in UNION {Range(run.steps[k].results) : k \in DOMAIN run.steps}}
ChemAgree(a, b) == \A x \in Chem(a), y \in Chem(b) : (x[1] = y[1] /\ x[2] = y[2]) => x[3] = y[3]

(* the network as a user reads it: species, and reactions as (step, rule, reactants, products) - no node ids, no app indices *)
AbsNet(j) ==
   LET st == ToState(j)
   IN [species |-> SpeciesKeys(st.nodes),
       events  |-> {<<st.nodes[e].step, st.nodes[e].rule, Reactants(st, e), Products(st, e)>> : e \in EventsOf(st)}]

(* ---- what property C14 states: the schedule (serial / k workers) changes nothing ---------------------------- *)
RECURSIVE SchedulesFrom(_, _)
SchedulesFrom(c, a) ==
   IF a > Len(c.runs) THEN "ok"
   ELSE IF ~ChemAgree(c.runs[1], c.runs[a]) THEN "run" \o ToString(a) \o "(" \o c.runs[a].mode \o "):rule-proposed-something-else-than-in-run1"
   ELSE IF AbsNet(FinalOf(c.runs[a])) # AbsNet(FinalOf(c.runs[1])) THEN "run" \o ToString(a) \o "(" \o c.runs[a].mode \o "):network-differs-from-run1"
   ELSE SchedulesFrom(c, a + 1)

(* ---- conformance to Expansion.tla: stricter than C14 (task order, node ids, loop control, the model's network);  *)
(* a failure here is reported as a deviation from the specification, not as a violation of C14                      *)
(* run.flat = [cfg, list]: what ReactionDeltaFlattener returned for the final network, sets as lists *)
FlatOK(run) ==
   LET want == FlatList(ToState(FinalOf(run)), run.flat.cfg)
       got  == run.flat.list
   IN /\ Len(got) = Len(want)
      /\ \A k \in DOMAIN got : /\ got[k].id = want[k].id /\ got[k].step = want[k].step /\ got[k].rule = want[k].rule
                                 /\ got[k].app = want[k].app /\ Range(got[k].r) = want[k].r /\ Range(got[k].p) = want[k].p

RECURSIVE ConformsFrom(_, _)
ConformsFrom(c, a) ==
   IF a > Len(c.runs) THEN "ok"
   ELSE LET v == RunVerdict(c.cfg, c.runs[a])
        IN IF v # "ok" THEN "run" \o ToString(a) \o "(" \o c.runs[a].mode \o "):" \o v
           ELSE IF Net(FinalOf(c.runs[a])) # Net(FinalOf(c.runs[1])) THEN "run" \o ToString(a) \o "(" \o c.runs[a].mode \o "):node-ids-differ-from-run1"
           ELSE ConformsFrom(c, a + 1)
Conformance(c) ==
   LET v == ConformsFrom(c, 1)
   IN IF v # "ok" THEN v
      ELSE IF \E a \in DOMAIN c.runs : "flat" \in DOMAIN c.runs[a] /\ ~FlatOK(c.runs[a]) THEN "flattened-reaction-list-differs-from-FlatList"
      ELSE IF "expect" \in DOMAIN c /\ Net(FinalOf(c.runs[1])) # Net(c.expect) THEN "network-differs-from-the-model's"
      ELSE IF "expect" \in DOMAIN c /\ Cardinality(FinalSeen(c.runs[1])) # c.expect.nseen THEN "attempted-set-differs-from-the-model's"
      ELSE "ok"

Verdict(c) ==
   LET v == SchedulesFrom(c, 2)
       d == Conformance(c)
   IN IF v # "ok" THEN v
      ELSE IF d # "ok" THEN "note:Expansion.tla:" \o d
      ELSE "ok"

VARIABLE i
Init == i = 0
Next == /\ i < Len(Cases)
        /\ i' = i + 1
        /\ PrintT("V|" \o ToString(i + 1) \o "|" \o Verdict(Cases[i + 1]))
=============================================================================

---------------------------- MODULE MC_BatchApa ----------------------------
(***************************************************************************)
(* Unbounded safety of the pinned result cache (Batch.tla, Pin = TRUE) by   *)
(* an inductive invariant discharged with Apalache:                         *)
(*    Init => IndInv          (apalache-mc check --init=Init    --inv=IndInv --length=0)  *)
(*    IndInv /\ Next => IndInv' (apalache-mc check --init=IndInit --inv=IndInv --length=1) *)
(* IndInv implies ResultIsPure, for any number of operations (MaxOps is     *)
(* only a bound for TLC; here it is 10^6).  MC_BatchApaNoPin is the same    *)
(* obligation for the cache keyed by the bare address: the induction step   *)
(* must FAIL there (vacuity control).                                       *)
(***************************************************************************)
EXTENDS Naturals, Sequences, FiniteSets, Apalache
VARIABLES
    \* @type: Int -> Int;
    heap,
    \* @type: Seq({addr: Int, res: Int});
    cache,
    \* @type: {content: Int, res: Int};
    last,
    \* @type: Int;
    ops
INSTANCE Batch WITH Addrs <- 1..3, Contents <- {10, 20, 30}, Cap <- 2, Pin <- TRUE, MaxOps <- 1000000

TypeOK == /\ DOMAIN heap \subseteq 1..3
          /\ \A a \in DOMAIN heap : heap[a] \in {10, 20, 30}
          /\ Len(cache) <= 2
          /\ \A k \in DOMAIN cache : cache[k].addr \in 1..3 /\ cache[k].res \in {10, 20, 30}
          /\ last.content \in {0, 10, 20, 30} /\ last.res \in {0, 10, 20, 30}
          /\ ops \in 0..1000000
IndInv == /\ TypeOK
          /\ last.res = last.content
          /\ \A k \in DOMAIN cache : cache[k].addr \in DOMAIN heap => heap[cache[k].addr] = cache[k].res
          /\ \A j \in DOMAIN cache, k \in DOMAIN cache : cache[j].addr = cache[k].addr => j = k
IndInit == heap = Gen(3) /\ cache = Gen(2) /\ last = Gen(1) /\ ops = Gen(1) /\ IndInv
=============================================================================

------------------------------ MODULE C05Cases ------------------------------
(***************************************************************************)
(* C05: rule application depends on the chemistry only, not on how inputs  *)
(* are written  (and the pruning clause of C11).                           *)
(* case = [claim |-> "C05" | "C11",                                         *)
(*         v |-> << [how, all, comp, bt, raw_all, raw_comp, raw_bt] >>]      *)
(* one entry per way of writing the same (template, substrate) pair; each   *)
(* field is the sequence of distinct reactions (strings "r>>p", canonical,   *)
(* unmapped) returned with symmetry pruning (all/comp/bt) or obtained by     *)
(* applying the rule at every raw match (the raw fields).                            *)
(***************************************************************************)
EXTENDS Prune, Json, IOUtils

Cases == ndJsonDeserialize(IOEnv.CASES)

Set(s) == {s[k] : k \in DOMAIN s}
(* two result sets agree / are nested when they do so as written, or when they do so after every bond is written as a
   single bond (field <f>_sk): RDKit writes a product whose formerly aromatic ring is no longer aromatic with one of
   several equivalent double-bond placements, depending on the atom order - that is not a different reaction *)
Eq(x, y, f) == Set(x[f]) = Set(y[f]) \/ Set(x[f \o "_sk"]) = Set(y[f \o "_sk"])
Sub(x, f, y, g) == Set(x[f]) \subseteq Set(y[g]) \/ Set(x[f \o "_sk"]) \subseteq Set(y[g \o "_sk"])

(* model_<strategy> = [pat, raw, keys] (see Prune.tla) is recorded whenever the pruned and the raw set differ;
   Explained: the pruned set is exactly what the pruning algorithm as implemented returns *)
HasModel(pm) == "pat" \in DOMAIN pm
(* (when there are too many raw matches to replay one by one the model is not evaluated: the case is then accepted
   on the coarse criterion alone, i.e. defects of the pruning stay masked there) *)
Explained(pruned, rawset, pm) == \/ Set(pruned) = Set(rawset)
                                 \/ (HasModel(pm) /\ Set(pruned) = ModelResult(pm))
                                 \/ "skipped" \in DOMAIN pm
AllExplained(c) == \A a \in DOMAIN c.v : /\ Explained(c.v[a].all, c.v[a].raw_all, c.v[a].model_all)
                                           /\ Explained(c.v[a].comp, c.v[a].raw_comp, c.v[a].model_comp)
                                           /\ Explained(c.v[a].bt, c.v[a].raw_bt, c.v[a].model_bt)

(* the raw (unpruned) result sets do not depend on the writing and contain the pruned ones, and every pruned set is
   what Prune.tla computes from the raw matches: then a difference between pruned sets is the known symmetry-pruning finding *)
RawAgree(c) == /\ \A a, b \in DOMAIN c.v : Eq(c.v[a], c.v[b], "raw_all") /\ Eq(c.v[a], c.v[b], "raw_comp")
               /\ \A a \in DOMAIN c.v : Sub(c.v[a], "all", c.v[a], "raw_all") /\ Sub(c.v[a], "comp", c.v[a], "raw_comp")
                                       /\ Sub(c.v[a], "bt", c.v[a], "raw_bt")
Tag(c, base) == IF RawAgree(c) /\ AllExplained(c) THEN base \o "[only-symmetry-pruning-differs]" ELSE base

Verdict(c) ==
   IF c.claim = "C05" THEN
      AllFails(<<
         <<Tag(c, "result-set-depends-on-how-the-inputs-are-written(all)"), \A a, b \in DOMAIN c.v : Eq(c.v[a], c.v[b], "all")>>,
         <<Tag(c, "result-set-depends-on-how-the-inputs-are-written(comp)"), \A a, b \in DOMAIN c.v : Eq(c.v[a], c.v[b], "comp")>>,
         <<Tag(c, "result-set-depends-on-how-the-inputs-are-written(bt)"), \A a, b \in DOMAIN c.v : Eq(c.v[a], c.v[b], "bt")>>,
         <<Tag(c, "component-aware-result-not-a-subset-of-exhaustive"), \A a \in DOMAIN c.v : Sub(c.v[a], "comp", c.v[a], "all")>>,
         <<Tag(c, "fallback-differs-from-non-empty-component-aware-result"),
              \A a \in DOMAIN c.v : Set(c.v[a].comp) # {} => (Set(c.v[a].bt) = Set(c.v[a].comp) \/ Set(c.v[a].bt_sk) = Set(c.v[a].comp_sk))>>,
         <<"raw-application-depends-on-how-the-inputs-are-written",
              \A a, b \in DOMAIN c.v : Eq(c.v[a], c.v[b], "raw_all") /\ Eq(c.v[a], c.v[b], "raw_comp")>>,
         <<"raw-component-aware-not-a-subset-of-raw-exhaustive", \A a \in DOMAIN c.v : Sub(c.v[a], "raw_comp", c.v[a], "raw_all")>>
      >>)
   ELSE
      AllFails(<<
         <<"pruning-invents-a-reaction", \A a \in DOMAIN c.v : Set(c.v[a].all) \subseteq Set(c.v[a].raw_all) /\ Set(c.v[a].comp) \subseteq Set(c.v[a].raw_comp)>>,
         <<"symmetry-pruning-loses-a-distinct-reaction" \o (IF AllExplained(c) THEN "[pruned-set-smaller-than-raw-set]" ELSE ""),
              \A a \in DOMAIN c.v : (Set(c.v[a].all) \subseteq Set(c.v[a].raw_all) /\ Set(c.v[a].comp) \subseteq Set(c.v[a].raw_comp))
                                     => (Set(c.v[a].all) = Set(c.v[a].raw_all) /\ Set(c.v[a].comp) = Set(c.v[a].raw_comp))>>
      >>)

VARIABLE i
Init == i = 0
Next == /\ i < Len(Cases)
        /\ i' = i + 1
        /\ PrintT("V|" \o ToString(i + 1) \o "|" \o Verdict(Cases[i + 1]))
=============================================================================

------------------------------ MODULE C05Cases ------------------------------
(***************************************************************************)
(* C05: rule application depends on the chemistry only, not on how inputs  *)
(* are written  (and the pruning clause of C11).                           *)
(* case = [claim |-> "C05" | "C11",                                         *)
(*         v |-> << [how, all, comp, bt, raw_all, raw_comp, raw_bt] >>]      *)
(* one entry per way of writing the same (template, substrate) pair; each   *)
(* field is the sequence of distinct reactions (strings "r>>p", canonical,   *)
(* unmapped) returned with symmetry pruning (all/comp/bt) or obtained by     *)
(* applying the rule at every raw match (the raw fields).                            *)
(***************************************************************************)
EXTENDS Naturals, Sequences, FiniteSets, TLC, Json, IOUtils

Cases == ndJsonDeserialize(IOEnv.CASES)

Set(s) == {s[k] : k \in DOMAIN s}

RECURSIVE AllFailsFrom(_, _, _)
AllFailsFrom(cl, k, acc) ==
   IF k > Len(cl) THEN (IF acc = "" THEN "ok" ELSE acc)
   ELSE AllFailsFrom(cl, k + 1, IF cl[k][2] THEN acc ELSE IF acc = "" THEN cl[k][1] ELSE acc \o ";" \o cl[k][1])
AllFails(cl) == AllFailsFrom(cl, 1, "")

(* the raw (unpruned) result sets do not depend on the writing and contain the pruned ones:
   then a difference between pruned sets is the known symmetry-pruning finding *)
RawAgree(c) == /\ \A a, b \in DOMAIN c.v : Set(c.v[a].raw_all) = Set(c.v[b].raw_all) /\ Set(c.v[a].raw_comp) = Set(c.v[b].raw_comp)
               /\ \A a \in DOMAIN c.v : Set(c.v[a].all) \subseteq Set(c.v[a].raw_all) /\ Set(c.v[a].comp) \subseteq Set(c.v[a].raw_comp)
                                       /\ Set(c.v[a].bt) \subseteq Set(c.v[a].raw_bt)
Tag(c, base) == IF RawAgree(c) THEN base \o "[only-symmetry-pruning-differs]" ELSE base

Verdict(c) ==
   IF c.claim = "C05" THEN
      AllFails(<<
         <<Tag(c, "result-set-depends-on-how-the-inputs-are-written(all)"), \A a, b \in DOMAIN c.v : Set(c.v[a].all) = Set(c.v[b].all)>>,
         <<Tag(c, "result-set-depends-on-how-the-inputs-are-written(comp)"), \A a, b \in DOMAIN c.v : Set(c.v[a].comp) = Set(c.v[b].comp)>>,
         <<Tag(c, "result-set-depends-on-how-the-inputs-are-written(bt)"), \A a, b \in DOMAIN c.v : Set(c.v[a].bt) = Set(c.v[b].bt)>>,
         <<Tag(c, "component-aware-result-not-a-subset-of-exhaustive"), \A a \in DOMAIN c.v : Set(c.v[a].comp) \subseteq Set(c.v[a].all)>>,
         <<Tag(c, "fallback-differs-from-non-empty-component-aware-result"),
              \A a \in DOMAIN c.v : Set(c.v[a].comp) # {} => Set(c.v[a].bt) = Set(c.v[a].comp)>>,
         <<"raw-application-depends-on-how-the-inputs-are-written",
              \A a, b \in DOMAIN c.v : Set(c.v[a].raw_all) = Set(c.v[b].raw_all) /\ Set(c.v[a].raw_comp) = Set(c.v[b].raw_comp)>>,
         <<"raw-component-aware-not-a-subset-of-raw-exhaustive", \A a \in DOMAIN c.v : Set(c.v[a].raw_comp) \subseteq Set(c.v[a].raw_all)>>
      >>)
   ELSE
      AllFails(<<
         <<"pruning-invents-a-reaction", \A a \in DOMAIN c.v : Set(c.v[a].all) \subseteq Set(c.v[a].raw_all) /\ Set(c.v[a].comp) \subseteq Set(c.v[a].raw_comp)>>,
         <<"symmetry-pruning-loses-a-distinct-reaction[pruned-set-smaller-than-raw-set]",
              \A a \in DOMAIN c.v : (Set(c.v[a].all) \subseteq Set(c.v[a].raw_all) /\ Set(c.v[a].comp) \subseteq Set(c.v[a].raw_comp))
                                     => (Set(c.v[a].all) = Set(c.v[a].raw_all) /\ Set(c.v[a].comp) = Set(c.v[a].raw_comp))>>
      >>)

VARIABLE i
Init == i = 0
Next == /\ i < Len(Cases)
        /\ i' = i + 1
        /\ PrintT("V|" \o ToString(i + 1) \o "|" \o Verdict(Cases[i + 1]))
=============================================================================

------------------------------- MODULE NetGen -------------------------------
(***************************************************************************)
(* Value generator (mode E): every reaction network over the species       *)
(* A, B, C with at most MaxRx distinct reactions and stoichiometric         *)
(* coefficients in 0..MaxCoef is a reachable state.  A reaction is encoded  *)
(* as a base-(MaxCoef+1) number (3 digits reactants, 3 digits products);    *)
(* a network is a strictly increasing sequence of codes (a set), or a       *)
(* non-decreasing one when Dup = TRUE (repeated reactions).  `out` carries  *)
(* the network as JSON; `tlc -dump` exports all of them.                    *)
(***************************************************************************)
EXTENDS Naturals, Sequences, FiniteSets, TLC, Json

CONSTANTS MaxCoef, MaxRx, Dup

VARIABLES codes, out

B == MaxCoef + 1
Pow(k) == CASE k = 0 -> 1 [] k = 1 -> B [] k = 2 -> B * B [] k = 3 -> B * B * B
            [] k = 4 -> B * B * B * B [] k = 5 -> B * B * B * B * B [] k = 6 -> B * B * B * B * B * B
Dig(c, k) == (c \div Pow(k)) % B
Names == <<"A", "B", "C">>
Side(c, off) == LET supp == {i \in 1..3 : Dig(c, off + i - 1) > 0}
                IN  [s \in {Names[i] : i \in supp} |-> Dig(c, off + (CHOOSE i \in 1..3 : Names[i] = s) - 1)]
Decode(c) == [l |-> Side(c, 0), r |-> Side(c, 3)]
AllCodes == 1..(Pow(6) - 1)

Net(cs) == [rx |-> [j \in 1..Len(cs) |-> Decode(cs[j])]]

Init == codes = <<>> /\ out = ""
Next == /\ Len(codes) < MaxRx
        /\ \E c \in AllCodes :
              /\ Len(codes) > 0 => (IF Dup THEN c >= codes[Len(codes)] ELSE c > codes[Len(codes)])
              /\ codes' = Append(codes, c)
              /\ out' = ToJson(Net(codes'))
=============================================================================

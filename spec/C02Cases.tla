------------------------------ MODULE C02Cases ------------------------------
(***************************************************************************)
(* C02: the reaction centre is exactly the set of changed bonds; the       *)
(* radius-k context grows monotonically.                                   *)
(* case = [its, rc, rc2, ren, ctx |-> <<ctx0, ctx1, ctx2, ctx3>>]            *)
(*   rc  = get_rc(its), rc2 = get_rc(rc), ren = centre of the renumbered     *)
(*   reaction mapped back to the original atoms, ctx[k+1] = extract_k(its,k) *)
(***************************************************************************)
EXTENDS ITS, Json, IOUtils

Cases == ndJsonDeserialize(IOEnv.CASES)

CtxClauses(I, ctx, k) ==
   LET S == ctx[k + 1]
       kk == ToString(k)
   IN << <<"context(" \o kk \o ")-atoms-are-not-those-within-k-bonds", SubNodes(S) = ContextNodes(I, k)>>,
         <<"context(" \o kk \o ")-labels", SubLabelsOK(I, S) /\ SubEdgeAttrsOK(I, S)>>,
         <<"context(" \o kk \o ")-bonds",
             IF k = 0 THEN SubEdgeSet(S) = RCEdges(I) ELSE SubEdgeSet(S) = InducedEdges(I, ContextNodes(I, k))>> >>

(* the atom's own element / charge labels (next to the (before, after) pair) are copied from the ITS as well *)
TopLabelsOK(I, S) == \A k \in DOMAIN S.nodes : S.top[k] = I.top[S.nodes[k]]

Verdict(c) ==
   LET I == c.its IN
   AllFails(
   << <<"centre-bonds-are-not-exactly-the-changed-bonds", SubEdgeSet(c.rc) = RCEdges(I) /\ SubNoDup(c.rc)>>,
      <<"centre-atoms-are-not-exactly-the-incident-atoms", SubNodes(c.rc) = RCNodes(I)>>,
      <<"centre-labels-differ-from-the-ITS", SubLabelsOK(I, c.rc) /\ SubEdgeAttrsOK(I, c.rc) /\ TopLabelsOK(I, c.rc)>>,
      <<"centre-of-centre-differs", SameSub(c.rc2, c.rc)>>,
      <<"renumbered-reaction-has-a-different-centre", SameSub(c.ren, c.rc)>> >>
   \o CtxClauses(I, c.ctx, 0) \o CtxClauses(I, c.ctx, 1) \o CtxClauses(I, c.ctx, 2) \o CtxClauses(I, c.ctx, 3)
   \o << <<"contexts-not-nested",
            /\ SubNodes(c.ctx[1]) \subseteq SubNodes(c.ctx[2]) /\ SubNodes(c.ctx[2]) \subseteq SubNodes(c.ctx[3])
            /\ SubNodes(c.ctx[3]) \subseteq SubNodes(c.ctx[4]) /\ SubNodes(c.ctx[4]) \subseteq INodes(I)>>,
         <<"context-of-a-renumbered-copy-of-the-same-object-differs",
            \A k \in 1..4 : SubNodes(c.dctx[k]) = ContextNodes(I, k - 1)>> >>)

VARIABLE i
Init == i = 0
Next == /\ i < Len(Cases)
        /\ i' = i + 1
        /\ PrintT("V|" \o ToString(i + 1) \o "|" \o Verdict(Cases[i + 1]))
=============================================================================

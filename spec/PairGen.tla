------------------------------- MODULE PairGen -------------------------------
(***************************************************************************)
(* Value generator (mode E) for C01 / C02: every pair (G, H) of molecular   *)
(* graphs on a shared node set of N atoms with elements 1..NEl (1 = H),      *)
(* per-side hydrogen counts 0..MaxHc and charges 0..MaxCh, per-side bond     *)
(* orders in {0, 2, 4} half units.  A pair is built by choosing the atoms    *)
(* first and then one bond slot after the other.                             *)
(***************************************************************************)
EXTENDS Naturals, Sequences, FiniteSets, TLC, Json

CONSTANTS N, NEl, MaxHc, MaxCh, Orders

VARIABLES atoms, bonds, out

Slots == {<<u, v>> \in (1..N) \X (1..N) : u < v}
NSlots == (N * (N - 1)) \div 2
SlotAt(k) == CHOOSE s \in Slots : Cardinality({r \in Slots : r[1] < s[1] \/ (r[1] = s[1] /\ r[2] < s[2])}) = k - 1

Adj(bs, side) == [u \in 1..N |-> [v \in 1..N |->
      IF u = v THEN 0
      ELSE LET a == IF u < v THEN u ELSE v
               b == IF u < v THEN v ELSE u
               k == CHOOSE j \in 1..NSlots : SlotAt(j) = <<a, b>>
           IN bs[k][side]]]

Mol(side) == [n |-> N,
              t |-> [v \in 1..N |-> <<atoms[v].el, 0, atoms[v].hc[side], atoms[v].ch[side]>>],
              adj |-> Adj(bonds, side), present |-> [v \in 1..N |-> 1]]

Init == atoms = <<>> /\ bonds = <<>> /\ out = ""
AddAtom == /\ Len(atoms) < N
           /\ \E e \in 1..NEl, h1 \in 0..MaxHc, h2 \in 0..MaxHc, c1 \in 0..MaxCh, c2 \in 0..MaxCh :
                 atoms' = Append(atoms, [el |-> e, hc |-> <<h1, h2>>, ch |-> <<c1, c2>>])
           /\ UNCHANGED bonds /\ out' = ""
AddBond == /\ Len(atoms) = N /\ Len(bonds) < NSlots
           /\ \E a \in Orders, b \in Orders : bonds' = Append(bonds, <<a, b>>)
           /\ UNCHANGED atoms
           /\ out' = IF Len(bonds') = NSlots
                     THEN ToJson([G |-> [n |-> N, t |-> [v \in 1..N |-> <<atoms[v].el, 0, atoms[v].hc[1], atoms[v].ch[1]>>],
                                         adj |-> Adj(bonds', 1), present |-> [v \in 1..N |-> 1]],
                                  H |-> [n |-> N, t |-> [v \in 1..N |-> <<atoms[v].el, 0, atoms[v].hc[2], atoms[v].ch[2]>>],
                                         adj |-> Adj(bonds', 2), present |-> [v \in 1..N |-> 1]]])
                     ELSE ""
Single == /\ N = 1 /\ Len(atoms) = 1 /\ out = ""
          /\ out' = ToJson([G |-> [n |-> 1, t |-> << <<atoms[1].el, 0, atoms[1].hc[1], atoms[1].ch[1]>> >>, adj |-> << <<0>> >>, present |-> <<1>>],
                            H |-> [n |-> 1, t |-> << <<atoms[1].el, 0, atoms[1].hc[2], atoms[1].ch[2]>> >>, adj |-> << <<0>> >>, present |-> <<1>>]])
          /\ UNCHANGED <<atoms, bonds>>
Next == AddAtom \/ AddBond \/ Single
=============================================================================

------------------------------ MODULE C16Cases ------------------------------
(***************************************************************************)
(* C16: network views round-trip exactly.                                  *)
(* net = [sp, rx, mol]   (mol : partial function species -> label)          *)
(* kind "bip": bipartite export G = [nodes, arcs] and the hypergraph `back` *)
(*             imported from it; flags = [integer_ids, edge_id_attr, mol]   *)
(* kind "str": reaction strings -> parse back                               *)
(* kind "sg" : species graph -> reconstruct (both sides non-empty only)     *)
(* back = [rx |-> id -> [rule, l, r], species |-> <<..>>, mol |-> ...]      *)
(***************************************************************************)
EXTENDS CRN, Json, IOUtils

Cases == ndJsonDeserialize(IOEnv.CASES)

Ids(N) == {N.rx[j].id : j \in 1..NRx(N)}
RxById(N, id) == N.rx[CHOOSE j \in 1..NRx(N) : N.rx[j].id = id]
Content(e) == [rule |-> e.rule, l |-> e.l, r |-> e.r]
Stoich(e)  == [l |-> e.l, r |-> e.r]
PresentMol(N) == [s \in DOMAIN N.mol \cap Occurring(N) |-> N.mol[s]]

(* same multiset of f-images *)
SameBag(N, back, F(_)) ==
   /\ Cardinality(DOMAIN back.rx) = NRx(N)
   /\ \A j \in 1..NRx(N) :
        Cardinality({k \in 1..NRx(N) : F(N.rx[k]) = F(N.rx[j])}) =
        Cardinality({i \in DOMAIN back.rx : F(back.rx[i]) = F(N.rx[j])})

SpNodes(G) == {k \in DOMAIN G.nodes : G.nodes[k].kind = "species"}
RxNodes(G) == {k \in DOMAIN G.nodes : G.nodes[k].kind = "reaction"}
NodeOfSpecies(G, s) == G.nodes[CHOOSE k \in SpNodes(G) : G.nodes[k].label = s].id
NodeOfRxn(G, id)    == G.nodes[CHOOSE k \in RxNodes(G) : G.nodes[k].eid = id].id

ExpectedArcs(N, G) ==
   UNION { {[u |-> NodeOfSpecies(G, s), v |-> NodeOfRxn(G, N.rx[j].id), stoich |-> N.rx[j].l[s], role |-> "reactant"] : s \in DOMAIN N.rx[j].l}
           \cup
           {[u |-> NodeOfRxn(G, N.rx[j].id), v |-> NodeOfSpecies(G, s), stoich |-> N.rx[j].r[s], role |-> "product"] : s \in DOMAIN N.rx[j].r}
         : j \in 1..NRx(N) }

(* every species / reaction of N has a node to refer to (guards the CHOOSEs above: TLC evaluates every clause) *)
NodesComplete(N, G, byid) ==
   /\ \A s \in Occurring(N) : \E k \in SpNodes(G) : G.nodes[k].label = s
   /\ byid => \A id \in Ids(N) : \E k \in RxNodes(G) : G.nodes[k].eid = id

BipVerdict(c) ==
   LET N == c.net
       G == c.G
       b == c.back
       byid == c.flags.edge_id_attr
   IN AllFails(<<
      <<"note:C16Cases:export-one-node-per-species",
          /\ Cardinality(SpNodes(G)) = Cardinality(Occurring(N))
          /\ {G.nodes[k].label : k \in SpNodes(G)} = Occurring(N)>>,
      <<"note:C16Cases:export-one-node-per-reaction",
          /\ Cardinality(RxNodes(G)) = NRx(N)
          /\ Cardinality(RxNodes(G)) + Cardinality(SpNodes(G)) = Len(G.nodes)
          /\ byid => /\ {G.nodes[k].eid : k \in RxNodes(G)} = Ids(N)
                     /\ \A k \in RxNodes(G) : G.nodes[k].label = RxById(N, G.nodes[k].eid).rule>>,
      <<"note:C16Cases:export-node-ids-distinct", Cardinality({G.nodes[k].id : k \in DOMAIN G.nodes}) = Len(G.nodes)>>,
      <<"note:C16Cases:export-integer-ids",
          c.flags.integer_ids =>
             /\ {G.nodes[k].iid : k \in DOMAIN G.nodes} = 1..Len(G.nodes)
             /\ \A k \in SpNodes(G) : G.nodes[k].iid <= Cardinality(SpNodes(G))>>,
      <<"note:C16Cases:export-arcs-exactly-the-incidences",
          byid => /\ NodesComplete(N, G, byid)
                  /\ Range(G.arcs) = ExpectedArcs(N, G)
                  /\ NoDup(G.arcs)>>,
      <<"note:C16Cases:export-mol-labels",
          \A k \in SpNodes(G) :
             LET s == G.nodes[k].label IN
             IF c.flags.mol /\ s \in DOMAIN N.mol THEN G.nodes[k].mol = N.mol[s] ELSE G.nodes[k].mol = "">>,
      <<"import-species", Range(b.species) = Occurring(N)>>,
      <<"import-reactions-with-ids-rules-coefficients",
          IF byid THEN /\ DOMAIN b.rx = Ids(N)
                       /\ \A i \in DOMAIN b.rx : b.rx[i] = Content(RxById(N, i))
          ELSE SameBag(N, b, Content)>>,
      <<"import-mol-labels", b.mol = (IF c.flags.mol THEN PresentMol(N) ELSE <<>>)>>
   >>)

StrVerdict(c) ==
   FirstFail(<<
      <<"strings-one-line-per-reaction", c.nlines = NRx(c.net)>>,
      <<"strings-same-multiset-of-reactions-with-rules", SameBag(c.net, c.back, Content)>>,
      <<"strings-species", Range(c.back.species) = Occurring(c.net)>>
   >>)

BothSides(N) == \A j \in 1..NRx(N) : DOMAIN N.rx[j].l # {} /\ DOMAIN N.rx[j].r # {}
SgVerdict(c) ==
   LET N == c.net
       b == c.back
   IN IF ~BothSides(N) THEN "skip:reaction-without-reactants-or-products"
   ELSE FirstFail(<<
      <<"species-graph-ids", DOMAIN b.rx = Ids(N)>>,
      <<"species-graph-stoichiometry", \A i \in DOMAIN b.rx : Stoich(b.rx[i]) = Stoich(RxById(N, i))>>,
      <<"species-graph-species", Range(b.species) = Occurring(N)>>,
      <<"species-graph-mol-labels", b.mol = (IF c.flags.mol THEN PresentMol(N) ELSE <<>>)>>
   >>)

Verdict(c) == CASE c.kind = "bip" -> BipVerdict(c)
                [] c.kind = "str" -> StrVerdict(c)
                [] c.kind = "sg"  -> SgVerdict(c)

VARIABLE i
Init == i = 0
Next == /\ i < Len(Cases)
        /\ i' = i + 1
        /\ PrintT("V|" \o ToString(i + 1) \o "|" \o Verdict(Cases[i + 1]))
=============================================================================

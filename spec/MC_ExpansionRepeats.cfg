SPECIFICATION Spec
INVARIANT CompleteWithRepeats
CHECK_DEADLOCK FALSE
VIEW View

SPECIFICATION Spec
INVARIANT WellFormedInv
INVARIANT CompleteAtEnd
INVARIANT ClosedAtEnd
PROPERTY AttemptedOnce
PROPERTY Monotone
PROPERTY FrontierIsWhatEntered
PROPERTY Terminates
CHECK_DEADLOCK FALSE
VIEW View

---------------------------- MODULE MC_Expansion ----------------------------
(***************************************************************************)
(* The expansion loop of Expansion.tla as a state machine over a small     *)
(* universe, with the chemistry left open: when a task is run, TLC picks   *)
(* what the rule proposes for that mixture from a menu.  Since a (rule,    *)
(* mixture) pair is run at most once (checked: AttemptedOnce) this is the  *)
(* same as quantifying over all chemistries of that universe.              *)
(*                                                                         *)
(* The code runs all tasks of a step and then folds the results in task    *)
(* order; here each result is folded as soon as it is chosen (same fold,   *)
(* Integrate is IntegrateFrom over the whole list) so that behaviours      *)
(* that reach the same network merge.                                      *)
(*                                                                         *)
(* `hist` (the chosen results of the current step) is hidden from the      *)
(* state space by VIEW and is dumped for replay into the real class.       *)
(***************************************************************************)
EXTENDS Expansion, Json

CONSTANTS NSpecies,       \* species are 1..NSpecies
          ArityCode,      \* the rule arities written as a decimal number: 12 = <<1, 2>>, 221 = <<2, 2, 1>>
          MaxComp, UseFrontier, CapMix, CapTasks, SkipNoChange, AllowEmpty, DedupDelta, DedupAcross, Repeats,
          MaxSeeds,       \* seeds are the non-empty sets of at most MaxSeeds species
          RichMenu        \* TRUE: a rule may propose two reactions for one mixture

RECURSIVE Digits(_)
Digits(n) == IF n < 10 THEN <<n>> ELSE Append(Digits(n \div 10), n % 10)
Arity == Digits(ArityCode)

Cfg == [arity |-> Arity, maxComp |-> MaxComp, useFrontier |-> UseFrontier, capMix |-> CapMix, capTasks |-> CapTasks,
        skipNoChange |-> SkipNoChange, allowEmpty |-> AllowEmpty, dedupDelta |-> DedupDelta, dedupAcross |-> DedupAcross,
        repeats |-> Repeats]
Species == 1..NSpecies

VARIABLES st,      \* the network state (Expansion.tla)
          next,    \* species that entered the pool during the current step
          step,    \* 1-based step counter of build
          phase,   \* "make" | "run" | "done"
          tasks,   \* tasks of the current step
          idx,     \* number of tasks already run and folded
          hist,    \* [seeds, steps]: the results chosen so far, per step a sequence of [r, mix, prods] (observation only)
          out      \* JSON of [cfg, hist, final] once the behaviour has ended, "" before (picked up from `tlc -dump`)
vars == <<st, next, step, phase, tasks, idx, hist, out>>
View == <<st, next, step, phase, tasks, idx>>

(* product mixtures: one or two species, any order matters only through node allocation, so ascending suffices *)
ProdMixes == {<<a>> : a \in Species} \cup {<<a, b>> : a \in Species, b \in Species}
Menu == { <<>> } \cup {<<m>> : m \in ProdMixes}
        \cup (IF RichMenu THEN {<<m, n>> : m \in ProdMixes, n \in ProdMixes} ELSE {})

Init == /\ \E S \in SUBSET Species : /\ S # {} /\ Cardinality(S) <= MaxSeeds
                                     /\ st = InitPool(Asc(S))
                                     /\ hist = [seeds |-> Asc(S), steps |-> <<>>]
        /\ next = {} /\ step = 1 /\ phase = "make" /\ tasks = <<>> /\ idx = 0 /\ out = ""

Final(s, h) == ToJson([hist |-> h, pool |-> Asc(s.pool), nodes |-> s.nodes, edges |-> s.edges, nseen |-> Cardinality(s.seen)])

Stop == /\ phase = "make" /\ ~Continue(st, Cfg, step)
        /\ phase' = "done" /\ out' = Final(st, hist)
        /\ UNCHANGED <<st, next, step, tasks, idx, hist>>

Make == /\ phase = "make" /\ Continue(st, Cfg, step)
        /\ LET mt == MakeTasks(st, Cfg)
           IN /\ st' = [st EXCEPT !.seen = mt.seen]
              /\ tasks' = mt.tasks
              /\ phase' = IF mt.tasks = <<>> THEN "done" ELSE "run"
              /\ hist' = IF mt.tasks = <<>> THEN hist ELSE [hist EXCEPT !.steps = Append(@, <<>>)]
              /\ out' = IF mt.tasks = <<>> THEN Final(st', hist) ELSE ""
        /\ next' = {} /\ idx' = 0 /\ UNCHANGED step

RunOne == /\ phase = "run" /\ idx < Len(tasks)
          /\ \E prods \in Menu :
                LET t == tasks[idx + 1]
                    a == IntegrateProds([st |-> st, next |-> next], Cfg, step, t[1], t[2], prods)
                IN /\ st' = a.st /\ next' = a.next
                   /\ hist' = [hist EXCEPT !.steps[Len(hist.steps)] = Append(@, [r |-> t[1], mix |-> t[2], prods |-> prods])]
          /\ idx' = idx + 1
          /\ UNCHANGED <<step, phase, tasks, out>>

EndStep == /\ phase = "run" /\ idx = Len(tasks)
           /\ st' = [st EXCEPT !.frontier = next]
           /\ step' = step + 1 /\ phase' = "make"
           /\ UNCHANGED <<next, tasks, idx, hist, out>>

Next == Stop \/ Make \/ RunOne \/ EndStep
Spec == Init /\ [][Next]_vars /\ WF_vars(Next)

(* ---- properties ------------------------------------------------------------ *)
WellFormedInv == WellFormed(st, Cfg) /\ next \subseteq st.pool

NoDupSeq(s) == Cardinality(Range(s)) = Len(s)
AttemptedOnce == [][(phase = "make" /\ phase' = "run") => (NoDupSeq(tasks') /\ Range(tasks') \cap st.seen = {} /\ Range(tasks') \subseteq st'.seen)]_vars
IsPrefix(a, b) == Len(a) <= Len(b) /\ SubSeq(b, 1, Len(a)) = a
Monotone == [][/\ st.pool \subseteq st'.pool /\ st.seen \subseteq st'.seen /\ st.delta \subseteq st'.delta
               /\ st.edges \subseteq st'.edges /\ IsPrefix(st.nodes, st'.nodes)]_vars
FrontierIsWhatEntered == [][(phase = "run" /\ phase' = "make") => (st'.frontier = next /\ next \cap SpeciesKeys(st.nodes) = next)]_vars

(* natural end (not the step limit, no cap reached): every mixture over the final pool was offered to every rule *)
NaturalEnd == phase = "done" /\ step <= Repeats
CompleteAtEnd == NaturalEnd => Complete(st, Cfg)
(* ... and the pool is closed under the recorded reactions and contains the seeds *)
ClosedAtEnd == phase = "done" => \A e \in EventsOf(st) : Products(st, e) \subseteq st.pool

(* stronger than the code: mixtures with a repeated species (A + A) are never offered *)
AllMultiMixes(P, k) == IF k = 2 THEN {<<a, b>> : a \in P, b \in P} ELSE AllMixes(P, k)
CompleteWithRepeats == NaturalEnd =>
   \A r \in 1..Len(Arity) : (Arity[r] = 2 /\ Arity[r] <= MaxComp) =>
      \A m \in {x \in AllMultiMixes(st.pool, 2) : x[1] <= x[2]} : <<r, m>> \in st.seen

Terminates == <>(phase = "done")

=============================================================================

------------------------ MODULE MC_MatcherSessionApa ------------------------
(***************************************************************************)
(* Unbounded safety of the shared histogram cache of MatcherSession.tla    *)
(* (KeyedByAttrs = TRUE) by an inductive invariant discharged with         *)
(* Apalache: whatever queries came before, and however many (MaxQ is 10^6  *)
(* here, 4-5 under TLC), every cached histogram is the pure projection of  *)
(* its key, hence every answer is the pure function of the query.          *)
(* MC_MatcherSessionApaObjKey is the same obligation for the cache keyed   *)
(* by the object alone: its induction step must FAIL (vacuity control).    *)
(***************************************************************************)
EXTENDS Naturals, Sequences, FiniteSets, Apalache
VARIABLES
    \* @type: <<Int, Str>> -> <<Int, Int>>;
    cache,
    \* @type: {e: Str, a: Int, b: Int, ans: Bool};
    last,
    \* @type: Int;
    n
INSTANCE MatcherSession WITH KeyedByAttrs <- TRUE, MaxQ <- 1000000

TypeOK == /\ DOMAIN cache \subseteq (1..3) \X {"el", "elch", "any"}
          /\ last.e \in {"el", "elch"} /\ last.a \in 1..3 /\ last.b \in 1..3
          /\ n \in 0..1000000
IndInv == /\ TypeOK
          /\ \A k \in DOMAIN cache : k[2] \in {"el", "elch"} => cache[k] = Proj(k[2], k[1])
          /\ AnswerIsPure
IndInit == cache = Gen(6) /\ last = Gen(1) /\ n = Gen(1) /\ IndInv
=============================================================================

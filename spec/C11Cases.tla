------------------------------ MODULE C11Cases ------------------------------
(***************************************************************************)
(* C11: automorphism groups and orbits are exact; the fast estimate only   *)
(* coarsens; de-duplication returns an order-preserving sub-list.          *)
(* kind "aut"  : [G, naut, orbits, est]   (orbits / est: sequences of node   *)
(*               sequences; labels = element + charge, edges = order)       *)
(* kind "dedup": [inp, out]  sequences of matches (a match = sequence of     *)
(*               <<pattern node, host node>> pairs)                         *)
(***************************************************************************)
EXTENDS LGraph, Json, IOUtils

Cases == ndJsonDeserialize(IOEnv.CASES)

Blocks(ss) == {Range(ss[k]) : k \in DOMAIN ss}

(* out is obtained from inp by deleting elements (order preserved) *)
RECURSIVE IsSubseqFrom(_, _, _, _)
IsSubseqFrom(out, inp, i, j) ==
   IF i > Len(out) THEN TRUE
   ELSE IF j > Len(inp) THEN FALSE
   ELSE IF out[i] = inp[j] THEN IsSubseqFrom(out, inp, i + 1, j + 1)
   ELSE IsSubseqFrom(out, inp, i, j + 1)

Verdict(c) ==
   CASE c.kind = "aut" ->
        LET G == c.G
            O == Blocks(c.orbits)
            E == Blocks(c.est)
        IN IF ~WellFormed(G) THEN "MACHINERY:malformed-graph"
           ELSE FirstFail(<<
              <<"automorphism-count", c.naut = PerCompAutCount(G)>>,
              <<"orbits-form-a-partition", IsPartitionOf(O, Nodes(G)) /\ Cardinality(O) = Len(c.orbits)>>,
              <<"orbits-are-the-true-orbits", O = PerCompOrbits(G)>>,
              <<"estimate-is-a-partition", IsPartitionOf(E, Nodes(G))>>,
              <<"estimate-separates-nodes-of-one-true-orbit", Coarsens(E, Orbits(G))>>
           >>)
     [] c.kind = "dedup" ->
        FirstFail(<<
           <<"dedup-not-a-sublist-in-original-order", IsSubseqFrom(c.out, c.inp, 1, 1)>>
        >>)

VARIABLE i
Init == i = 0
Next == /\ i < Len(Cases)
        /\ i' = i + 1
        /\ PrintT("V|" \o ToString(i + 1) \o "|" \o Verdict(Cases[i + 1]))
=============================================================================

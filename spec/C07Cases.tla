------------------------------ MODULE C07Cases ------------------------------
(***************************************************************************)
(* C07: isomorphism verdicts, boolean subgraph tests and embeddings are    *)
(* correct; pre-filters never change them; answers do not depend on the    *)
(* query history.                                                          *)
(* case = [g |-> [el |-> <<graphs>>, elch |-> <<graphs>>, plain |-> ...],   *)
(*         q |-> << queries >>]                                            *)
(*   g.<sel>[k] : abstract view of graph OBJECT k under attribute selection *)
(*     el    = (element; order) + hcount rule                               *)
(*     elch  = (element, charge; order) + hcount rule                       *)
(*     plain = (element, charge; order), hydrogen counts ignored            *)
(*   query = [op, sel, a, b, flag, res]  executed IN THIS ORDER on shared   *)
(*     objects (engines with different selections share the graph objects)  *)
(*     op "iso"  : GraphMatcherEngine(sel, wl1_filter=flag).isomorphic(a,b) *)
(*     op "emb"  : ...get_mappings(host=a, pattern=b), res = maps b -> a     *)
(*     op "giso" : graph_isomorphism / find_graph_isomorphism(fast=flag)     *)
(*     op "sub-induced" / "sub-mono" : boolean subgraph test child a in b,   *)
(*                 use_filter=flag (impl names the implementation)          *)
(***************************************************************************)
EXTENDS LGraph, Json, IOUtils

Cases == ndJsonDeserialize(IOEnv.CASES)

View(c, sel, k) == CASE sel = "el" -> c.g.el[k] [] sel = "elch" -> c.g.elch[k] [] sel = "chel" -> c.g.elch[k]
                        [] sel = "topo" -> c.g.topo[k] [] OTHER -> c.g.plain[k]

QVerdict(c, q) ==
   LET A == View(c, q.sel, q.a)
       B == View(c, q.sel, q.b)
       tag == q.op \o "(" \o q.sel \o (IF q.flag THEN ",filter-on" ELSE ",filter-off") \o ")"
   IN
   CASE q.op = "iso" ->
          (* first argument is the host of the hcount rule *)
          IF q.res = (IsosHostRule(A, B) # {}) THEN "ok" ELSE tag \o ":wrong-isomorphism-verdict"
     [] q.op = "giso" ->
          IF q.res = IsIso(A, B) THEN "ok" ELSE tag \o ":wrong-isomorphism-verdict"
     [] q.op = "sub-induced" ->
          IF q.res = (Embeddings(A, B) # {}) THEN "ok" ELSE tag \o ":wrong-induced-containment-verdict"
     [] q.op = "sub-mono" ->
          IF q.res = (Monos(A, B) # {}) THEN "ok" ELSE tag \o ":wrong-monomorphic-containment-verdict"
     [] q.op = "emb" ->
          (* host a, pattern b *)
          LET all == Embeddings(B, A) IN
          IF \E k \in DOMAIN q.res : q.res[k] \notin all THEN tag \o ":invalid-embedding"
          ELSE IF all # {} /\ Len(q.res) = 0 THEN tag \o ":contained-pattern-but-no-embedding"
          ELSE IF \E k \in DOMAIN c.q : /\ c.q[k].op = "emb" /\ c.q[k].sel = q.sel /\ c.q[k].a = q.a /\ c.q[k].b = q.b
                                       /\ c.q[k].unlimited = q.unlimited /\ c.q[k].flag # q.flag
                                       /\ Range(c.q[k].res) # Range(q.res)
               THEN tag \o ":pre-filter-changes-the-result-set"
          ELSE IF ~NoDup(q.res) THEN tag \o ":duplicate-embedding"
          ELSE "ok"

SseVerdict(c, q) ==
   LET A == View(c, q.sel, q.a)
       B == View(c, q.sel, q.b)
       tag == "sse(" \o (IF q.flag THEN "pre-filter-on" ELSE "pre-filter-off") \o ")"
       all == Monos(B, A)
   IN IF \E k \in DOMAIN q.res : q.res[k] \notin all THEN tag \o ":invalid-embedding"
      ELSE IF \E k \in DOMAIN c.q : /\ c.q[k].op = "sse" /\ c.q[k].a = q.a /\ c.q[k].b = q.b /\ c.q[k].flag # q.flag
                                    /\ Range(c.q[k].res) # Range(q.res)
           THEN tag \o ":pre-filter-changes-the-result-set"
      ELSE "ok"

RECURSIVE QFrom(_, _)
QFrom(c, k) ==
   IF k > Len(c.q) THEN "ok"
   ELSE LET v == IF c.q[k].op = "sse" THEN SseVerdict(c, c.q[k]) ELSE QVerdict(c, c.q[k])
            rest == QFrom(c, k + 1)
        IN IF v = "ok" THEN rest
           ELSE LET w == "q" \o ToString(k) \o ":" \o v IN IF rest = "ok" THEN w ELSE w \o ";" \o rest

Verdict(c) == QFrom(c, 1)

VARIABLE i
Init == i = 0
Next == /\ i < Len(Cases)
        /\ i' = i + 1
        /\ PrintT("V|" \o ToString(i + 1) \o "|" \o Verdict(Cases[i + 1]))
=============================================================================

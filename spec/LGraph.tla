------------------------------- MODULE LGraph -------------------------------
(***************************************************************************)
(* Theory of finite labelled graphs: pure operators, no variables.         *)
(*                                                                         *)
(* G = [n |-> N, lab |-> <<...>>, hc |-> <<...>>, adj |-> <<<<...>>>>]     *)
(*   nodes are 1..N                                                        *)
(*   lab[v] : code of the tuple of SELECTED node attributes (compared for   *)
(*            equality only; the projection assigns codes per case)        *)
(*   hc[v]  : hydrogen count (the only attribute with an order: the        *)
(*            documented rule "host >= pattern")                           *)
(*   adj[u][v] : code (> 0) of the tuple of selected edge attributes,      *)
(*            0 = no edge; symmetric, zero diagonal                        *)
(* A map pattern -> host is a sequence m with m[p] = image of node p.      *)
(***************************************************************************)
EXTENDS Naturals, Integers, FiniteSets, Sequences, TLC

Nodes(G) == 1..G.n
Range(s) == {s[k] : k \in DOMAIN s}
NoDup(s) == Cardinality(Range(s)) = Len(s)
HasEdge(G, u, v) == G.adj[u][v] # 0
Edges(G) == {<<u, v>> \in Nodes(G) \X Nodes(G) : u < v /\ HasEdge(G, u, v)}
Degree(G, v) == Cardinality({u \in Nodes(G) : HasEdge(G, u, v)})

WellFormed(G) ==
   /\ Len(G.lab) = G.n /\ Len(G.hc) = G.n /\ Len(G.adj) = G.n
   /\ \A u \in Nodes(G) : Len(G.adj[u]) = G.n /\ G.adj[u][u] = 0
   /\ \A u, v \in Nodes(G) : G.adj[u][v] = G.adj[v][u]

(* directed graphs use the same record with an asymmetric adj (adj[u][v] = code of arc u -> v) *)
WellFormedD(G) ==
   /\ Len(G.lab) = G.n /\ Len(G.hc) = G.n /\ Len(G.adj) = G.n
   /\ \A u \in Nodes(G) : Len(G.adj[u]) = G.n /\ G.adj[u][u] = 0

(* ------------------------------ components ------------------------------ *)
RECURSIVE ReachFrom(_, _)
ReachFrom(G, X) == LET Y == X \cup {v \in Nodes(G) : \E u \in X : HasEdge(G, u, v)}
                   IN IF Y = X THEN X ELSE ReachFrom(G, Y)
CompOf(G, v) == ReachFrom(G, {v})
Components(G) == {CompOf(G, v) : v \in Nodes(G)}
NComp(G) == Cardinality(Components(G))
Connected(G) == G.n = 0 \/ NComp(G) = 1
SameComp(G, u, v) == v \in CompOf(G, u)

(* --------------------- label-preserving monomorphisms ------------------- *)
(* node rule: selected attributes equal, host hydrogen count >= pattern's   *)
NodeOK(P, H, p, h) == P.lab[p] = H.lab[h] /\ H.hc[h] >= P.hc[p]
(* exact node rule (isomorphism / automorphism on the labels themselves)    *)
NodeEq(P, H, p, h) == P.lab[p] = H.lab[h] /\ H.hc[h] = P.hc[p]

MonoEdge(pe, he)    == pe # 0 => he = pe              \* pattern bond lands on an equal host bond
InducedEdge(pe, he) == pe = he                         \* bonds and non-bonds both preserved

(* all injective m : 1..P.n -> Nodes(H) obeying the node and edge rule of `mode`,
   built by back-tracking:
     "mono" : NodeOK + MonoEdge        "emb" : NodeOK + InducedEdge
     "iso"  : NodeEq + InducedEdge                                          *)
OKN(mode, P, H, p, h) == IF mode = "iso" THEN NodeEq(P, H, p, h) ELSE NodeOK(P, H, p, h)
OKE(mode, pe, he)     == IF mode = "mono" THEN MonoEdge(pe, he) ELSE InducedEdge(pe, he)
RECURSIVE ExtMaps(_, _, _, _, _)
ExtMaps(P, H, m, k, mode) ==
   IF k > P.n THEN {m}
   ELSE UNION { ExtMaps(P, H, Append(m, h), k + 1, mode) :
                h \in { x \in Nodes(H) :
                          /\ \A i \in 1..(k - 1) : m[i] # x
                          /\ OKN(mode, P, H, k, x)
                          /\ \A i \in 1..(k - 1) : /\ OKE(mode, P.adj[i][k], H.adj[m[i]][x])
                                                    /\ OKE(mode, P.adj[k][i], H.adj[x][m[i]]) } }   \* both directions: adj may be asymmetric (digraphs)

(* the set C06 talks about *)
Monos(P, H)      == ExtMaps(P, H, <<>>, 1, "mono")
(* induced embeddings (node rule host >= pattern) *)
Embeddings(P, H) == ExtMaps(P, H, <<>>, 1, "emb")
(* isomorphisms under the documented rule, first argument = host *)
IsosHostRule(H, P) == IF H.n # P.n THEN {} ELSE ExtMaps(P, H, <<>>, 1, "emb")
(* exact isomorphisms (all compared attributes equal) *)
Isos(G1, G2)     == IF G1.n # G2.n THEN {} ELSE ExtMaps(G1, G2, <<>>, 1, "iso")
Autos(G)         == Isos(G, G)
IsIso(G1, G2)    == Isos(G1, G2) # {}

IsMono(P, H, m) ==
   /\ Len(m) = P.n /\ NoDup(m) /\ Range(m) \subseteq Nodes(H)
   /\ \A p \in Nodes(P) : NodeOK(P, H, p, m[p])
   /\ \A p, q \in Nodes(P) : MonoEdge(P.adj[p][q], H.adj[m[p]][m[q]])

(* component-aware: different pattern components into different host components;
   all monomorphisms when the host has fewer components; the empty map for the
   empty pattern *)
CompDistinct(P, H, m) ==
   \A p, q \in Nodes(P) : ~SameComp(P, p, q) => ~SameComp(H, m[p], m[q])
CompMonos(P, H) ==
   IF P.n = 0 THEN {<<>>}
   ELSE IF NComp(H) < NComp(P) THEN Monos(P, H)
   ELSE {m \in Monos(P, H) : CompDistinct(P, H, m)}
BtMonos(P, H) == IF CompMonos(P, H) # {} THEN CompMonos(P, H) ELSE Monos(P, H)

(* ------------------------------ orbits ---------------------------------- *)
Orbit(G, v)  == {a[v] : a \in Autos(G)}
Orbits(G)    == LET A == Autos(G) IN {{a[v] : a \in A} : v \in Nodes(G)}     \* the group is enumerated once
(* per component (component swaps excluded) *)
SubOn(G, C)  ==   \* induced subgraph on node set C, renumbered increasingly
   LET idx == [k \in 1..Cardinality(C) |-> CHOOSE v \in C : Cardinality({u \in C : u < v}) = k - 1]
   IN [n |-> Cardinality(C), lab |-> [k \in 1..Cardinality(C) |-> G.lab[idx[k]]],
       hc |-> [k \in 1..Cardinality(C) |-> G.hc[idx[k]]],
       adj |-> [k \in 1..Cardinality(C) |-> [j \in 1..Cardinality(C) |-> G.adj[idx[k]][idx[j]]]],
       idx |-> idx]
CompAutCount(G, C) == Cardinality(Autos(SubOn(G, C)))
CompOrbits(G, C) == LET S == SubOn(G, C) IN {{S.idx[w] : w \in o} : o \in Orbits(S)}
RECURSIVE ProdAut(_, _)
ProdAut(G, Cs) == IF Cs = {} THEN 1
                  ELSE LET C == CHOOSE X \in Cs : TRUE IN CompAutCount(G, C) * ProdAut(G, Cs \ {C})
PerCompAutCount(G) == ProdAut(G, Components(G))
PerCompOrbits(G)   == UNION {CompOrbits(G, C) : C \in Components(G)}

(* a partition Q coarsens partition P: every block of P lies inside a block of Q *)
Coarsens(Q, P) == \A b \in P : \E c \in Q : b \subseteq c
IsPartitionOf(Q, S) == /\ UNION Q = S /\ \A a, b \in Q : a # b => a \cap b = {} /\ {} \notin Q

(* ------------------------- common induced subgraphs --------------------- *)
(* a common map is a set of pairs <<u, v>>, u in G1, v in G2 *)
ValidCommon(G1, G2, pairs) ==
   /\ \A a, b \in pairs : (a[1] = b[1]) = (a[2] = b[2])            \* injective both ways
   /\ \A a \in pairs : a[1] \in Nodes(G1) /\ a[2] \in Nodes(G2) /\ G1.lab[a[1]] = G2.lab[a[2]]
   /\ \A a, b \in pairs : G1.adj[a[1]][b[1]] = G2.adj[a[2]][b[2]]   \* presence and order, both directions
(* maximum size of a valid common induced map: back-tracking over G1's nodes *)
RECURSIVE MCSFrom(_, _, _, _)
MCSFrom(G1, G2, k, pairs) ==
   IF k > G1.n THEN Cardinality(pairs)
   ELSE LET skip == MCSFrom(G1, G2, k + 1, pairs)
            cands == {v \in Nodes(G2) : /\ \A a \in pairs : a[2] # v
                                        /\ G1.lab[k] = G2.lab[v]
                                        /\ \A a \in pairs : G1.adj[a[1]][k] = G2.adj[a[2]][v]}
            best == {MCSFrom(G1, G2, k + 1, pairs \cup {<<k, v>>}) : v \in cands}
        IN IF best = {} THEN skip
           ELSE LET mx == CHOOSE x \in best : \A y \in best : y <= x IN IF mx > skip THEN mx ELSE skip
MCSSize(G1, G2) == MCSFrom(G1, G2, 1, {})

(* ----------------------------- relabelling ------------------------------ *)
(* pi : old node -> new node (a permutation of 1..n, as a sequence) *)
IsPerm(pi, n) == Len(pi) = n /\ Range(pi) = 1..n
InvPerm(pi) == [k \in 1..Len(pi) |-> CHOOSE v \in 1..Len(pi) : pi[v] = k]
Relabel(G, pi) ==
   LET inv == InvPerm(pi) IN
   [n |-> G.n, lab |-> [k \in 1..G.n |-> G.lab[inv[k]]], hc |-> [k \in 1..G.n |-> G.hc[inv[k]]],
    adj |-> [k \in 1..G.n |-> [j \in 1..G.n |-> G.adj[inv[k]][inv[j]]]]]
SameGraph(A, B) == A.n = B.n /\ A.lab = B.lab /\ A.hc = B.hc /\ A.adj = B.adj

(* ----------------------------- clause helpers --------------------------- *)
RECURSIVE FirstFailFrom(_, _)
FirstFailFrom(cl, k) == IF k > Len(cl) THEN "ok"
                        ELSE IF cl[k][2] THEN FirstFailFrom(cl, k + 1) ELSE cl[k][1]
FirstFail(cl) == FirstFailFrom(cl, 1)
RECURSIVE AllFailsFrom(_, _, _)
AllFailsFrom(cl, k, acc) ==
   IF k > Len(cl) THEN (IF acc = "" THEN "ok" ELSE acc)
   ELSE AllFailsFrom(cl, k + 1, IF cl[k][2] THEN acc ELSE IF acc = "" THEN cl[k][1] ELSE acc \o ";" \o cl[k][1])
AllFails(cl) == AllFailsFrom(cl, 1, "")
=============================================================================

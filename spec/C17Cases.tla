------------------------------ MODULE C17Cases ------------------------------
(***************************************************************************)
(* C17: stoichiometric analysis agrees with exact linear algebra.          *)
(* case = [net, sp_order, rx_order, S, integral, inc_sp, inc_rx, inc,       *)
(*         rank, L, R   (kernel bases, columns scaled by 10^6 and rounded), *)
(*         conservative, conservative2, consistent  ("T" | "F" | "N"),      *)
(*         witness (10^6-scaled, <<>> if none),                             *)
(*         sum = [n_species, n_reactions, rank, dl, dr, cons, consist],     *)
(*         cert_cons, cert_flux = [kind |-> "pos" | "alt" | "none", v]]     *)
(* Certificates come from an untrusted finder and are VERIFIED here          *)
(* (Stiemke's alternative); on small networks TLC searches the box itself.  *)
(***************************************************************************)
EXTENDS CRN, Json, IOUtils

Cases == ndJsonDeserialize(IOEnv.CASES)

IdxOf(seq, x) == CHOOSE k \in DOMAIN seq : seq[k] = x
RxById(N, id) == N.rx[CHOOSE j \in 1..NRx(N) : N.rx[j].id = id]
Ids(N) == {N.rx[j].id : j \in 1..NRx(N)}

(* exact S with the implementation's ROW order (species labels are unique); the
   implementation orders columns by rule label, which is not unique, so columns are
   compared as a multiset ("one column per reaction") *)
ExpectedS(N, spo) ==
   [i \in 1..Len(spo) |-> [j \in 1..NRx(N) |->
       Coef(N.rx[j].r, spo[i]) - Coef(N.rx[j].l, spo[i])]]
Col(M, nr, j) == [i \in 1..nr |-> M[i][j]]
SameColumnsAsMultiset(M1, M2, nr, nc) ==
   \A j \in 1..nc :
      /\ Cardinality({k \in 1..nc : Col(M1, nr, k) = Col(M1, nr, j)}) = Cardinality({k \in 1..nc : Col(M2, nr, k) = Col(M1, nr, j)})
      /\ Cardinality({k \in 1..nc : Col(M2, nr, k) = Col(M2, nr, j)}) = Cardinality({k \in 1..nc : Col(M1, nr, k) = Col(M2, nr, j)})

(* (stricter than C17, reported as a deviation only) documented order: columns sorted by the reactions' label (= rule); rx_rank[j] = rank of the label of column j,
   rule_rank[k] = rank of the rule of the network's k-th reaction.  Within one label the order is not specified:
   the columns of a label block are compared, as a multiset, with the exact columns of the reactions of that rule *)
ColumnsFollowLabels(c, S, E, nr, nc) ==
   /\ Len(c.rx_rank) = nc /\ Len(c.rule_rank) = nc
   /\ \A j \in 1..nc, k \in 1..nc : j < k => c.rx_rank[j] <= c.rx_rank[k]
   /\ \A j \in 1..nc :
         Cardinality({k \in 1..nc : c.rx_rank[k] = c.rx_rank[j] /\ Col(S, nr, k) = Col(S, nr, j)})
           = Cardinality({k \in 1..nc : c.rule_rank[k] = c.rx_rank[j] /\ Col(E, nr, k) = Col(S, nr, j)})

ColAbsSum(S, nr, j) == SumSeq([i \in 1..nr |-> Abs(S[i][j])])
RowAbsSum(S, nc, i) == SumSeq([j \in 1..nc |-> Abs(S[i][j])])

(* v is a 10^6-scaled rounded left-kernel vector: |v^T S| within rounding *)
LeftResidualOK(S, nr, nc, v) ==
   /\ Len(v) = nr
   /\ \A j \in 1..nc : Abs(SumSeq([i \in 1..nr |-> v[i] * S[i][j]])) <= 2 * ColAbsSum(S, nr, j) + 2
RightResidualOK(S, nr, nc, v) ==
   /\ Len(v) = nc
   /\ \A i \in 1..nr : Abs(SumSeq([j \in 1..nc |-> v[j] * S[i][j]])) <= 2 * RowAbsSum(S, nc, i) + 2
NonZeroVec(v) == \E k \in DOMAIN v : Abs(v[k]) > 1000
(* independence: some k x k minor is non-zero modulo a prime (sound: rank_p <= rank_Q) *)
Independent(B, len) ==
   \/ Len(B) = 0
   \/ RankMod(B, Len(B), len, 10007) = Len(B)
   \/ RankMod(B, Len(B), len, 30011) = Len(B)

MaxCoefLE2(N) == \A j \in 1..NRx(N) : /\ \A xa \in DOMAIN N.rx[j].l : N.rx[j].l[xa] <= 2
                                       /\ \A xb \in DOMAIN N.rx[j].r : N.rx[j].r[xb] <= 2
Small(N) == NSp(N) <= 3 /\ NRx(N) <= 2 /\ MaxCoefLE2(N)

(* truth of "a strictly positive conservation law exists": "T", "F" or "?" *)
TruthCons(N, cert) ==
   IF Small(N) THEN (IF Conservative(N, 6) THEN "T" ELSE IF NonConserv(N, 6) THEN "F" ELSE "?")
   ELSE IF cert.kind = "pos" /\ IsPosConservation(N, cert.v) THEN "T"
   ELSE IF cert.kind = "alt" /\ IsNonConservCert(N, cert.v) THEN "F"
   ELSE "?"
TruthFlux(N, cert) ==
   IF Small(N) THEN (IF Consistent(N, 6) THEN "T" ELSE IF NonConsist(N, 6) THEN "F" ELSE "?")
   ELSE IF cert.kind = "pos" /\ IsPosFlux(N, cert.v) THEN "T"
   ELSE IF cert.kind = "alt" /\ IsNonConsistCert(N, cert.v) THEN "F"
   ELSE "?"

(* "reported X exactly when X": T must be reported as T, F must not be *)
Agrees(reported, truth) == (truth = "T" => reported = "T") /\ (truth = "F" => reported # "T")

(* Known finding (see known_findings.json): the LP branch of
   _positive_conservation_law_from_basis (kernel dimension >= 2, no basis column
   of one sign) has an unbounded objective and misses existing positive laws.
   The clause name carries the mechanism so that only this call site is listed. *)
OneSigned(v) == (\A k \in DOMAIN v : v[k] > 0) \/ (\A k \in DOMAIN v : v[k] < 0)
LPBranchMiss(c, truth, reported) ==
   truth = "T" /\ reported = "F" /\ Len(c.L) >= 2 /\ \A k \in DOMAIN c.L : ~OneSigned(c.L[k])
ConsName(base, c, truth, reported) ==
   IF LPBranchMiss(c, truth, reported) THEN base \o "[lp-branch-misses-positive-law]" ELSE base

Verdict(c) ==
   LET N   == c.net
       nr  == NSp(N)
       nc  == NRx(N)
       E   == ExpectedS(N, c.sp_order)
       S   == c.S
       rk  == Rank(E, nr, nc)
       tc  == TruthCons(N, c.cert_cons)
       tf  == TruthFlux(N, c.cert_flux)
   IN
   IF tc = "?" \/ tf = "?" THEN "skip:no-verified-certificate"
   ELSE AllFails(<<
      <<"S-axes", NoDup(c.sp_order) /\ Range(c.sp_order) = SpSet(N) /\ Len(c.rx_order) = nc>>,
      <<"S-shape", Len(c.S) = nr /\ \A i \in 1..nr : Len(c.S[i]) = nc>>,
      <<"S-entries-produced-minus-consumed", c.integral /\ SameColumnsAsMultiset(c.S, E, nr, nc)>>,
      <<"note:C17Cases:S-columns-not-ordered-by-label", c.integral /\ ColumnsFollowLabels(c, c.S, E, nr, nc)>>,
      <<"S-agrees-with-incidence-matrix",
          /\ Range(c.inc_sp) = SpSet(N) /\ Range(c.inc_rx) = Ids(N)
          /\ \A i \in 1..nr, j \in 1..nc :
                c.inc[IdxOf(c.inc_sp, c.sp_order[i])][IdxOf(c.inc_rx, N.rx[j].id)] = E[i][j]>>,
      <<"rank-exact", c.rank = rk>>,
      <<"left-kernel-dimension", Len(c.L) = nr - rk>>,
      <<"left-kernel-vectors-annihilate", \A k \in DOMAIN c.L : LeftResidualOK(S, nr, nc, c.L[k]) /\ NonZeroVec(c.L[k])>>,
      <<"left-kernel-independent", Independent(c.L, nr)>>,
      <<"right-kernel-dimension", Len(c.R) = nc - rk>>,
      <<"right-kernel-vectors-annihilate", \A k \in DOMAIN c.R : RightResidualOK(S, nr, nc, c.R[k]) /\ NonZeroVec(c.R[k])>>,
      <<"right-kernel-independent", Independent(c.R, nc)>>,
      <<ConsName("is_conservative", c, tc, c.conservative), Agrees(c.conservative, tc)>>,
      <<ConsName("compute_conservativity-verdict", c, tc, c.conservative2), Agrees(c.conservative2, tc)>>,
      <<"compute_conservativity-witness",
          c.witness = <<>> \/ (AllPos(c.witness) /\ LeftResidualOK(S, nr, nc, c.witness) /\ c.conservative2 = "T")>>,
      <<"is_consistent", Agrees(c.consistent, tf)>>,
      <<"summary-dimensions", /\ c.sum.n_species = nr /\ c.sum.n_reactions = nc /\ c.sum.rank = rk
                              /\ c.sum.dl = nr - rk /\ c.sum.dr = nc - rk>>,
      <<ConsName("summary-conservative", c, tc, c.sum.cons), Agrees(c.sum.cons, tc)>>,
      <<"summary-consistent", Agrees(c.sum.consist, tf)>>
   >>)

(* lemma (Stiemke): on small networks exactly one certificate exists in the box *)
LemmaVerdict(c) ==
   LET N == c.net IN
   IF ~Small(N) THEN "ok"
   ELSE IF Conservative(N, 6) = NonConserv(N, 6) THEN "lemma-conservation-alternative"
   ELSE IF Consistent(N, 6) = NonConsist(N, 6) THEN "lemma-consistency-alternative" ELSE "ok"

VARIABLE i
Init == i = 0
Next == /\ i < Len(Cases)
        /\ i' = i + 1
        /\ PrintT("V|" \o ToString(i + 1) \o "|" \o
                  (IF LemmaVerdict(Cases[i + 1]) # "ok" THEN "MACHINERY:" \o LemmaVerdict(Cases[i + 1])
                   ELSE Verdict(Cases[i + 1])))
=============================================================================

------------------------------ MODULE C20Cases ------------------------------
(***************************************************************************)
(* C20: judges find_siphons / find_traps, PetriNet.enabled / fire and      *)
(* PathwayRealizability.is_realizable outputs recorded from the real code. *)
(*  kind "st"   : [net, siphons, traps]                                    *)
(*  kind "fire" : [m, pre, post, enabled, fired]                           *)
(*  kind "real" : [net, flow, ok, cert]   flow/cert indexed like net.rx     *)
(***************************************************************************)
EXTENDS Petri, Json, IOUtils

Cases == ndJsonDeserialize(IOEnv.CASES)

SetOfSets(ss) == {Range(ss[k]) : k \in DOMAIN ss}

Verdict(c) ==
   CASE c.kind = "st" /\ c.maxsize > 0 ->
        (* size-limited search: the inclusion-minimal ones among the siphons / traps of at most maxsize species *)
        LET small == {X \in SUBSET SpSet(c.net) : Cardinality(X) <= c.maxsize}
        IN FirstFail(<<
          <<"size-limited-siphons", SetOfSets(c.siphons) = Minimal({X \in small : IsSiphon(c.net, X)})>>,
          <<"size-limited-traps", SetOfSets(c.traps) = Minimal({X \in small : IsTrap(c.net, X)})>>
        >>)
     [] c.kind = "st" ->
        FirstFail(<<
          <<"siphons-no-duplicates", Cardinality(SetOfSets(c.siphons)) = Len(c.siphons)
                                     /\ \A k \in DOMAIN c.siphons : NoDup(c.siphons[k])>>,
          <<"siphons-are-siphons", \A X \in SetOfSets(c.siphons) : IsSiphon(c.net, X)>>,
          <<"siphons-exactly-the-minimal-ones", SetOfSets(c.siphons) = MinimalSiphons(c.net)>>,
          <<"traps-no-duplicates", Cardinality(SetOfSets(c.traps)) = Len(c.traps)
                                     /\ \A k \in DOMAIN c.traps : NoDup(c.traps[k])>>,
          <<"traps-are-traps", \A X \in SetOfSets(c.traps) : IsTrap(c.net, X)>>,
          <<"traps-exactly-the-minimal-ones", SetOfSets(c.traps) = MinimalTraps(c.net)>>
        >>)
     [] c.kind = "fire" ->
        FirstFail(<<
          <<"enabled-iff-marking-covers-reactants", c.enabled = Enabled(c.m, c.pre)>>,
          <<"fire-changes-marking-by-products-minus-reactants", SameMarking(c.fired, Fire(c.m, c.pre, c.post))>>,
          <<"fire-does-not-mutate-its-input", c.m_after = c.m>>
        >>)
     [] c.kind = "real" ->
        IF c.ok THEN CertVerdict(c.net, c.flow, c.cert)
        ELSE IF Realizable(c.net, c.flow) THEN "realizable-pathway-reported-unrealizable" ELSE "ok"

VARIABLE i
Init == i = 0
Next == /\ i < Len(Cases)
        /\ i' = i + 1
        /\ PrintT("V|" \o ToString(i + 1) \o "|" \o Verdict(Cases[i + 1]))
=============================================================================

------------------------------ MODULE C08Cases ------------------------------
(***************************************************************************)
(* C08: graph canonicalisation is faithful and sound; the exact back-end   *)
(* is invariant.                                                           *)
(* case = [g |-> <<abstract graphs of the objects>>,                        *)
(*         b |-> << [backend, exact, sig, sig2, pi, cg, eq] >>]             *)
(*   lab = code of ALL node attributes, adj = code of all edge attributes   *)
(*   sig[k], sig2[k] : signature of object k / of a deep copy of it         *)
(*   pi[k]  : old node -> canonical node (read back through a tag attribute) *)
(*   cg[k]  : abstract canonical graph, nodes in the order 1..N (<<>> when   *)
(*            the back-end only provides signatures)                        *)
(*   eq[a][b] : value-object equality (only for wrappers; else <<>>)         *)
(***************************************************************************)
EXTENDS LGraph, Json, IOUtils

Cases == ndJsonDeserialize(IOEnv.CASES)

BVerdict(c, r) ==
   LET m == Len(c.g)
       tag == r.backend
       hasCanon == Len(r.cg) = m
       hasSig == Len(r.sig) = m          \* rows of a value-object wrapper without a signature of its own carry sig = <<>>
   IN FirstFail(<<
      <<tag \o ":canonical-nodes-are-not-1..N",
          hasCanon => \A k \in 1..m : IsPerm(r.pi[k], c.g[k].n)>>,
      <<tag \o ":canonical-graph-is-not-the-input-relabelled",
          hasCanon => \A k \in 1..m : IsPerm(r.pi[k], c.g[k].n) => SameGraph(r.cg[k], Relabel(c.g[k], r.pi[k]))>>,
      <<tag \o ":signature-not-deterministic", hasSig => \A k \in 1..m : r.sig[k] = r.sig2[k]>>,
      <<tag \o ":equal-signatures-for-non-isomorphic-graphs",
          hasSig => \A a, b \in 1..m : (a < b /\ r.sig[a] = r.sig[b]) => IsIso(c.g[a], c.g[b])>>,
      <<tag \o ":isomorphic-graphs-get-different-signatures",
          (r.exact /\ hasSig) => \A a, b \in 1..m : (a < b /\ IsIso(c.g[a], c.g[b])) => r.sig[a] = r.sig[b]>>,
      <<tag \o ":isomorphic-graphs-get-different-canonical-graphs",
          (r.exact /\ hasCanon) => \A a, b \in 1..m : (a < b /\ IsIso(c.g[a], c.g[b])) => SameGraph(r.cg[a], r.cg[b])>>,
      <<tag \o ":wrapper-equality-is-not-isomorphism",
          Len(r.eq) = m => \A a, b \in 1..m : r.eq[a][b] = IsIso(c.g[a], c.g[b])>>
   >>)

RECURSIVE BFrom(_, _)
BFrom(c, k) ==
   IF k > Len(c.b) THEN "ok"
   ELSE LET v == BVerdict(c, c.b[k])
            rest == BFrom(c, k + 1)
        IN IF v = "ok" THEN rest ELSE IF rest = "ok" THEN v ELSE v \o ";" \o rest

Verdict(c) == IF \E k \in DOMAIN c.g : ~WellFormed(c.g[k]) THEN "MACHINERY:malformed-graph" ELSE BFrom(c, 1)

VARIABLE i
Init == i = 0
Next == /\ i < Len(Cases)
        /\ i' = i + 1
        /\ PrintT("V|" \o ToString(i + 1) \o "|" \o Verdict(Cases[i + 1]))
=============================================================================

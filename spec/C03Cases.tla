------------------------------ MODULE C03Cases ------------------------------
(***************************************************************************)
(* C03: every reaction proposed by rule application is a genuine instance  *)
(* of the rule.                                                            *)
(* case = [host, rc, mode, results |-> << [its, m] >>]                      *)
(*   host : substrate molecule on the common index list (present flags)     *)
(*   rc   : the rule object the library derived (SynReactor.rule.rc, already   *)
(*          inverted for backward application) as an ITS graph - used only    *)
(*          for the exact-application note                                    *)
(*   tpl  : the template AS WRITTEN (centre or full ITS of the template        *)
(*          reaction, sides exchanged for backward application): clauses (b)   *)
(*          and (c) and the preconditions refer to it, so that a defect in the *)
(*          library's own processing of the template is not taken over         *)
(*   mode : "implicit" (implicit_temp=True, explicit_h=False) or "explicit"  *)
(*   its  : one graph of SynReactor.its_list on the common index list        *)
(*   m    : the match it was built from (implicit mode, else <<>>)           *)
(***************************************************************************)
EXTENDS Rule, Json, IOUtils

Cases == ndJsonDeserialize(IOEnv.CASES)

(* preconditions of C03, decided from the rule *)
WellFormedT(rc) == \A v \in INodes(rc) : rc.tG[v][1] # 0 /\ rc.tG[v][1] = rc.tH[v][1]
ConsistentH(rc, mode) ==
   IF mode = "implicit" THEN HAtoms(rc) = {}
   ELSE /\ \A v \in Heavy(rc) : rc.tG[v][3] = rc.tH[v][3]    \* every centre hydrogen is written as an atom
        /\ HAtoms(rc) \subseteq RCNodes(rc)                   \* and no spectator hydrogen is

(* known finding (see known_findings.json): a bond that the rule FORMS between two atoms the substrate already joins by an
   aromatic bond is written as round(1.5 + 1) = 2 instead of 2.5, so its order changes by 0.5 and not by the rule's 1.
   Recognised exactly: undoing that rounding makes the change graph the rule's. *)
Unrounded(I) == [I EXCEPT !.oH = [u \in 1..I.n |-> [v \in 1..I.n |-> IF I.oG[u][v] = 3 /\ I.oH[u][v] = 4 THEN 5 ELSE I.oH[u][v]]]]
RoundTag(I, tpl) == IF ~SameChanges(I, tpl) /\ SameChanges(Unrounded(I), tpl)
                    THEN "[bond-formed-on-an-existing-aromatic-bond,1.5+1-rounded-to-2]" ELSE ""

ResClauses(c, k) ==
   LET r == c.results[k]
       I == r.its
       tag == "result" \o ToString(k) \o ":"
       host == IF "host" \in DOMAIN r THEN r.host ELSE c.host    \* a result rendered on its own index list carries the substrate on it
       hostOnly == [n |-> Cardinality({v \in 1..c.host.n : c.host.present[v] = 1}),
                    t |-> SelectSeq(c.host.t, LAMBDA x : TRUE), adj |-> c.host.adj]
   IN << <<tag \o "substrate-side-is-not-the-unchanged-substrate", ReactantSideIsSubstrate(I, host)>>,
         <<tag \o "element-or-charge-not-conserved", CentreBalanced(c.tpl) => Conserved(I)>>,
         <<tag \o "hydrogen-or-charge-change-differs-from-the-rule",
              TotalDeltaH(I) = TotalDeltaH(c.tpl) /\ TotalDeltaCh(I) = TotalDeltaCh(c.tpl) /\ SameElements(I)>>,
         <<tag \o "changed-bonds-differ-from-the-rule" \o RoundTag(I, c.tpl), SameChanges(I, c.tpl)>>,
         <<"note:C03Cases:" \o tag \o "not-node-for-node-the-rule-applied-at-the-logged-match",
              (c.mode = "implicit" /\ Len(r.m) = c.rc.n /\ \A v \in 1..c.host.n : c.host.present[v] = 1)
                 => SameITS(I, Apply([n |-> c.host.n, t |-> c.host.t, adj |-> c.host.adj], c.rc, r.m))>> >>

RECURSIVE AllRes(_, _)
AllRes(c, k) == IF k > Len(c.results) THEN <<>> ELSE ResClauses(c, k) \o AllRes(c, k + 1)

Verdict(c) ==
   IF ~WellFormedT(c.tpl) THEN "skip:template-not-fully-mapped"
   ELSE IF ~ConsistentH(c.tpl, c.mode) THEN "skip:template-hydrogens-not-written-consistently"
   ELSE IF Len(c.results) = 0 THEN "skip:no-result"
   ELSE AllFails(AllRes(c, 1))

VARIABLE i
Init == i = 0
Next == /\ i < Len(Cases)
        /\ i' = i + 1
        /\ PrintT("V|" \o ToString(i + 1) \o "|" \o Verdict(Cases[i + 1]))
=============================================================================

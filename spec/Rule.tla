--------------------------------- MODULE Rule ---------------------------------
(***************************************************************************)
(* Theory of rule application on ITS graphs (SynReactor).                  *)
(* A rule is the ITS graph rc of its reaction centre (or of the whole      *)
(* template reaction); a substrate is a molecular graph; a match m sends    *)
(* rule atom p to substrate atom m[p]; a result is an ITS graph on the      *)
(* substrate's atoms (plus possibly new explicit hydrogen atoms).           *)
(* Hydrogens may be written explicitly or counted in hcount: everything     *)
(* here is stated after folding explicit hydrogens (FoldedHcG / FoldedHcH). *)
(***************************************************************************)
EXTENDS ITS

LG == INSTANCE LGraph

Heavy(I) == {v \in INodes(I) : I.tG[v][1] # HCODE /\ I.tG[v][1] # 0}
HAtoms(I) == {v \in INodes(I) : I.tG[v][1] = HCODE}
FoldedHcG(I, v) == I.tG[v][3] + Cardinality({h \in HAtoms(I) : I.oG[h][v] # 0})
FoldedHcH(I, v) == I.tH[v][3] + Cardinality({h \in HAtoms(I) : I.oH[h][v] # 0})
DeltaH(I, v) == FoldedHcH(I, v) - FoldedHcG(I, v)
DeltaCh(I, v) == I.tH[v][4] - I.tG[v][4]

RECURSIVE SumDH(_, _)
SumDH(I, S) == IF S = {} THEN 0 ELSE LET v == CHOOSE x \in S : TRUE IN DeltaH(I, v) + SumDH(I, S \ {v})
RECURSIVE SumDC(_, _)
SumDC(I, S) == IF S = {} THEN 0 ELSE LET v == CHOOSE x \in S : TRUE IN DeltaCh(I, v) + SumDC(I, S \ {v})
(* hydrogens bonded to nothing heavy on either side (H2, H+, H-) count as atoms on both sides *)
FreeHG(I) == {h \in HAtoms(I) : \A v \in Heavy(I) : I.oG[h][v] = 0}
FreeHH(I) == {h \in HAtoms(I) : \A v \in Heavy(I) : I.oH[h][v] = 0}
TotalDeltaH(I)  == SumDH(I, Heavy(I)) + Cardinality(FreeHH(I)) - Cardinality(FreeHG(I))
TotalDeltaCh(I) == SumDC(I, INodes(I))
SameElements(I) == \A v \in INodes(I) : I.tG[v][1] = I.tH[v][1]
Conserved(I) == SameElements(I) /\ TotalDeltaH(I) = 0 /\ TotalDeltaCh(I) = 0
CentreBalanced(rc) == TotalDeltaH(rc) = 0 /\ TotalDeltaCh(rc) = 0

(* ---- the graph of changed bonds ---------------------------------------- *)
ChangedBonds(I) == {<<u, v>> \in Heavy(I) \X Heavy(I) : u < v /\ I.oG[u][v] # I.oH[u][v]}
ChangedAtoms(I) == LET E == ChangedBonds(I) IN {e[1] : e \in E} \cup {e[2] : e \in E}
Renum(S) == [k \in 1..Cardinality(S) |-> CHOOSE v \in S : Cardinality({u \in S : u < v}) = k - 1]
ChangeGraph(I) ==
   LET S == ChangedAtoms(I)
       idx == Renum(S)
       m == Cardinality(S)
   IN [n |-> m,
       lab |-> [k \in 1..m |-> <<I.tG[idx[k]][1], DeltaH(I, idx[k])>>],
       hc |-> [k \in 1..m |-> 0],
       adj |-> [a \in 1..m |-> [b \in 1..m |->
                  IF a # b /\ I.oG[idx[a]][idx[b]] # I.oH[idx[a]][idx[b]]
                  THEN 100 + I.oH[idx[a]][idx[b]] - I.oG[idx[a]][idx[b]] ELSE 0]]]
SameChanges(res, rc) == LET A == ChangeGraph(res)
                            B == ChangeGraph(rc)
                        IN A.n = B.n /\ LG!IsIso(A, B)

(* ---- the substrate is the reactant side, unchanged ---------------------- *)
(* host is given on the result's index list (present = 0 for atoms the rendering added) *)
ReactantSideIsSubstrate(res, host) == FoldEq(DecG(res) @@ [present |-> [v \in 1..res.n |-> 1]], host)

(* ---- exact application at a match (implicit-hydrogen rendering) --------- *)
(* m[p] = substrate atom of rule atom p *)
Apply(host, rc, m) ==
   LET inv(v) == CHOOSE p \in 1..rc.n : m[p] = v
       hit == {m[p] : p \in 1..rc.n}
   IN [n |-> host.n,
       tG |-> host.t,
       tH |-> [v \in 1..host.n |->
                 IF v \in hit
                 THEN LET p == inv(v) IN
                      <<host.t[v][1], host.t[v][2], host.t[v][3] - (rc.tG[p][3] - rc.tH[p][3]), rc.tH[p][4]>>
                 ELSE host.t[v]],
       oG |-> host.adj,
       oH |-> [u \in 1..host.n |-> [v \in 1..host.n |->
                 IF u \in hit /\ v \in hit /\ u # v /\ ItsEdge(rc, inv(u), inv(v))
                 THEN host.adj[u][v] + (rc.oH[inv(u)][inv(v)] - rc.oG[inv(u)][inv(v)])
                 ELSE host.adj[u][v]]]]
SameITS(A, B) == A.n = B.n /\ A.tG = B.tG /\ A.tH = B.tH /\ A.oG = B.oG /\ A.oH = B.oH
=============================================================================

------------------------------- MODULE Cluster -------------------------------
(***************************************************************************)
(* Incremental classification of items into isomorphism classes            *)
(* (BatchCluster.lib_check / cluster / fit) as a state machine over        *)
(* ABSTRACT items: an item is its isomorphism class iso \in 1..NIso (what   *)
(* the real code has to discover with an isomorphism test).                *)
(*   templates : sequence of [cls, iso]  - the library of representatives  *)
(*   done      : sequence of [iso, cls]  - items classified so far         *)
(* Arrive(x): class of the first representative isomorphic to x, or a      *)
(* fresh class (any id not used by a representative) which is then added   *)
(* to the library.  Invariant: same class <=> same isomorphism class,      *)
(* whatever the arrival order and whatever (consistent) library we start   *)
(* from - including libraries whose ids are not 0..n-1 or that hold two    *)
(* representatives of one class.  `out` exports every history for replay.  *)
(***************************************************************************)
EXTENDS Naturals, Sequences, FiniteSets, TLC, Json

CONSTANTS NIso, MaxLen

VARIABLES templates, done, lib0, out
vars == <<templates, done, lib0, out>>

Libraries == { <<>>,
               << [cls |-> 0, iso |-> 1] >>,
               << [cls |-> 3, iso |-> 1] >>,
               << [cls |-> 3, iso |-> 1], [cls |-> 7, iso |-> 2] >>,
               << [cls |-> 6, iso |-> 2], [cls |-> 6, iso |-> 2], [cls |-> 2, iso |-> 3] >>,
               << [cls |-> 1, iso |-> 1] >>,                                   \* pruned libraries: ids not 0..n-1
               << [cls |-> 0, iso |-> 2], [cls |-> 2, iso |-> 1] >>,
               << [cls |-> 2, iso |-> 3], [cls |-> 1, iso |-> 1] >> }

Classes(T) == {T[k].cls : k \in DOMAIN T}
Hits(T, x) == {k \in DOMAIN T : T[k].iso = x}
Fresh(T)   == CHOOSE c \in 0..(Len(T) + 10) : c \notin Classes(T) /\ \A d \in 0..(Len(T) + 10) : d \notin Classes(T) => c <= d

Init == /\ templates \in Libraries
        /\ lib0 = templates
        /\ done = <<>>
        /\ out = ""

Arrive(x) ==
   /\ Len(done) < MaxLen
   /\ LET h == Hits(templates, x) IN
      IF h # {} THEN
           LET k == CHOOSE a \in h : \A b \in h : a <= b IN
           /\ done' = Append(done, [iso |-> x, cls |-> templates[k].cls])
           /\ UNCHANGED templates
      ELSE \E c \in {Fresh(templates), Len(templates) + 11} :       \* ANY unused id is acceptable
           /\ done' = Append(done, [iso |-> x, cls |-> c])
           /\ templates' = Append(templates, [cls |-> c, iso |-> x])
   /\ UNCHANGED lib0
   /\ out' = ToJson([lib |-> lib0, items |-> [k \in DOMAIN done' |-> done'[k].iso]])

Next == \E x \in 1..NIso : Arrive(x)
Spec == Init /\ [][Next]_vars

(* same class <=> isomorphic, over the library and everything classified *)
All == [k \in 1..(Len(templates) + Len(done)) |->
          IF k <= Len(templates) THEN templates[k] ELSE done[k - Len(templates)]]
PartitionOK == \A a, b \in DOMAIN All : (All[a].cls = All[b].cls) = (All[a].iso = All[b].iso)
(* exported histories must not depend on the fresh-id choice: keep only the canonical one *)
=============================================================================

------------------------------ MODULE C06Cases ------------------------------
(***************************************************************************)
(* C06: SubgraphSearchEngine.find_subgraph_mappings returns exactly the    *)
(* label-preserving monomorphisms (LGraph!Monos / CompMonos / BtMonos).    *)
(* case = [P, H, unchanged, runs |-> << [strategy, strict, k, t, pre, res] >>] *)
(*   k = max_results (0 = none), t = threshold (0 = default 5000),         *)
(*   res = sequence of maps (sequences: pattern node -> host node)         *)
(***************************************************************************)
EXTENDS LGraph, Json, IOUtils

Cases == ndJsonDeserialize(IOEnv.CASES)

Full(P, H, strategy, strict) ==
   LET comp == IF P.n = 0 THEN {<<>>}
               ELSE IF NComp(H) < NComp(P) THEN Monos(P, H)
               ELSE IF NComp(H) > NComp(P) /\ strict THEN {}     \* documented guard strict_cc_count
               ELSE CompMonos(P, H)
   IN CASE strategy = "all"  -> Monos(P, H)
        [] strategy = "comp" -> comp
        [] strategy = "bt"   -> IF comp # {} THEN comp ELSE Monos(P, H)

(* Known finding (known_findings.json): with a result limit the component-aware
   search truncates its per-component candidate lists and may come back empty although
   component-distinct matches exist; the fallback strategy then falls back to the
   exhaustive search and returns maps outside its own unlimited result.  The mechanism
   is recognised from the sibling run (strategy comp, same limits). *)
LimitEmptiedComp(P, H, runs, r) ==
   /\ r.strategy = "bt" /\ (r.k > 0 \/ r.t > 0)
   /\ Full(P, H, "comp", r.strict) # {}
   /\ \E q \in DOMAIN runs : /\ runs[q].strategy = "comp" /\ runs[q].strict = r.strict
                             /\ runs[q].k = r.k /\ runs[q].t = r.t /\ runs[q].pre = r.pre
                             /\ runs[q].res = <<>>
   /\ Range(r.res) \subseteq Monos(P, H)
Tagged(base, P, H, runs, r) ==
   IF LimitEmptiedComp(P, H, runs, r) THEN base \o "[fallback-after-limit-emptied-component-search]" ELSE base

RunVerdict(P, H, runs, r) ==
   LET full == Full(P, H, r.strategy, r.strict)
       got  == Range(r.res)
       tag  == r.strategy \o (IF r.strict THEN "-strict" ELSE "")
   IN
   IF ~NoDup(r.res) THEN tag \o ":duplicates"
   ELSE IF \E m \in got : ~IsMono(P, H, m) THEN tag \o ":returns-a-map-that-is-not-a-monomorphism"
   ELSE IF r.k = 0 /\ r.t = 0 THEN
        (IF got = full THEN "ok"
         ELSE IF ~(got \subseteq full) THEN tag \o ":extra-result" ELSE tag \o ":missed-result")
   ELSE IF r.k > 0 THEN            \* max_results only truncates
        (IF ~(got \subseteq full) THEN Tagged(tag \o ":max_results-not-a-sublist", P, H, runs, r)
         ELSE IF Len(r.res) > r.k THEN tag \o ":max_results-exceeded"
         ELSE IF Cardinality(full) <= r.k /\ r.strategy = "all" /\ got # full THEN tag \o ":max_results-lost-results"
         ELSE IF r.strategy = "all" /\ Len(r.res) # (IF Cardinality(full) < r.k THEN Cardinality(full) ELSE r.k)
              THEN tag \o ":max_results-wrong-length"
         ELSE "ok")
   ELSE                             \* threshold: full list, or emptied past the threshold
        (IF got # {} /\ got # full THEN Tagged(tag \o ":threshold-neither-full-nor-empty", P, H, runs, r)
         ELSE IF Cardinality(full) > r.t /\ got # {} THEN tag \o ":threshold-not-enforced"
         ELSE IF r.strategy = "all" /\ Cardinality(full) <= r.t /\ got # full THEN tag \o ":threshold-emptied-too-early"
         ELSE "ok")

RECURSIVE RunsFrom(_, _, _, _)
RunsFrom(P, H, runs, k) ==
   IF k > Len(runs) THEN "ok"
   ELSE LET v == RunVerdict(P, H, runs, runs[k])
            rest == RunsFrom(P, H, runs, k + 1)
        IN IF v = "ok" THEN rest ELSE IF rest = "ok" THEN v ELSE v \o ";" \o rest

Verdict(c) ==
   IF ~WellFormed(c.P) \/ ~WellFormed(c.H) THEN "MACHINERY:malformed-graph"
   ELSE IF ~c.unchanged THEN "inputs-modified"
   ELSE RunsFrom(c.P, c.H, c.runs, 1)

VARIABLE i
Init == i = 0
Next == /\ i < Len(Cases)
        /\ i' = i + 1
        /\ PrintT("V|" \o ToString(i + 1) \o "|" \o Verdict(Cases[i + 1]))
=============================================================================

-------------------------------- MODULE CRN --------------------------------
(***************************************************************************)
(* Theory of reaction networks: pure operators, no variables.              *)
(*                                                                         *)
(* A network is  [sp |-> <<species labels>>, rx |-> <<reactions>>]  with   *)
(* reaction = [id, rule, l, r]; l and r are multisets written as functions *)
(* species -> positive count (DOMAIN = support; the empty side is <<>>).   *)
(* A side *is* a complex; two complexes are equal iff they are equal as    *)
(* functions.                                                              *)
(***************************************************************************)
EXTENDS Naturals, Integers, FiniteSets, Sequences, TLC

Abs(x) == IF x < 0 THEN -x ELSE x
Quot(a, b) == IF b < 0 THEN (-a) \div (-b) ELSE a \div b       \* exact division only
Range(s) == {s[k] : k \in DOMAIN s}
NoDup(s) == Cardinality(Range(s)) = Len(s)
Coef(side, s) == IF s \in DOMAIN side THEN side[s] ELSE 0

RECURSIVE SumSeq(_)
SumSeq(s) == IF s = <<>> THEN 0 ELSE Head(s) + SumSeq(Tail(s))

NSp(N) == Len(N.sp)
NRx(N) == Len(N.rx)
SpSet(N) == Range(N.sp)
Occurring(N) == UNION {DOMAIN N.rx[j].l \cup DOMAIN N.rx[j].r : j \in 1..NRx(N)}

(* ---------------------------- linear algebra ---------------------------- *)
(* matrices are sequences of rows; all arithmetic is exact integer          *)
NRows(M) == Len(M)
NCols(M) == IF Len(M) = 0 THEN 0 ELSE Len(M[1])
Transpose(M, nr, nc) == [j \in 1..nc |-> [i \in 1..nr |-> M[i][j]]]
Dot(a, b) == SumSeq([k \in 1..Len(a) |-> a[k] * b[k]])
MatVec(M, v) == [i \in 1..Len(M) |-> Dot(M[i], v)]               \* M v
VecMat(v, M, nc) == [j \in 1..nc |-> SumSeq([i \in 1..Len(M) |-> v[i] * M[i][j]])]   \* v^T M

(* stoichiometric matrix: one row per species, one column per reaction,     *)
(* entry = produced minus consumed                                          *)
SMatrix(N) == [i \in 1..NSp(N) |-> [j \in 1..NRx(N) |->
                  Coef(N.rx[j].r, N.sp[i]) - Coef(N.rx[j].l, N.sp[i])]]

(* exact rank by fraction-free (Bareiss) elimination *)
RECURSIVE RankFrom(_, _, _, _, _, _)
RankFrom(M, nr, nc, r, c, prev) ==
   IF r > nr \/ c > nc THEN r - 1
   ELSE LET piv == {i \in r..nr : M[i][c] # 0} IN
        IF piv = {} THEN RankFrom(M, nr, nc, r, c + 1, prev)
        ELSE LET p  == CHOOSE i \in piv : \A k \in piv : i <= k
                 M1 == [i \in 1..nr |-> IF i = r THEN M[p] ELSE IF i = p THEN M[r] ELSE M[i]]
                 M2 == [i \in 1..nr |-> IF i <= r THEN M1[i]
                           ELSE [k \in 1..nc |-> Quot(M1[r][c] * M1[i][k] - M1[i][c] * M1[r][k], prev)]]
             IN RankFrom(M2, nr, nc, r + 1, c + 1, M1[r][c])
Rank(M, nr, nc) == IF nr = 0 \/ nc = 0 THEN 0 ELSE RankFrom(M, nr, nc, 1, 1, 1)
RankS(N) == Rank(SMatrix(N), NSp(N), NRx(N))

(* rank modulo a prime: a lower bound of the rational rank (used to certify  *)
(* linear independence of rounded floating-point kernel vectors)             *)
Mod(a, p) == ((a % p) + p) % p
RECURSIVE RankModFrom(_, _, _, _, _, _)
RankModFrom(M, nr, nc, r, c, p) ==
   IF r > nr \/ c > nc THEN r - 1
   ELSE LET piv == {i \in r..nr : M[i][c] # 0} IN
        IF piv = {} THEN RankModFrom(M, nr, nc, r, c + 1, p)
        ELSE LET q  == CHOOSE i \in piv : \A k \in piv : i <= k
                 M1 == [i \in 1..nr |-> IF i = r THEN M[q] ELSE IF i = q THEN M[r] ELSE M[i]]
                 M2 == [i \in 1..nr |-> IF i <= r THEN M1[i]
                           ELSE [k \in 1..nc |-> Mod(M1[r][c] * M1[i][k] - M1[i][c] * M1[r][k], p)]]
             IN RankModFrom(M2, nr, nc, r + 1, c + 1, p)
RankMod(M, nr, nc, p) ==
   IF nr = 0 \/ nc = 0 THEN 0
   ELSE RankModFrom([i \in 1..nr |-> [k \in 1..nc |-> Mod(M[i][k], p)]], nr, nc, 1, 1, p)

AllPos(v)  == \A k \in DOMAIN v : v[k] > 0
AllZero(v) == \A k \in DOMAIN v : v[k] = 0
SemiPos(v) == (\A k \in DOMAIN v : v[k] >= 0) /\ (\E k \in DOMAIN v : v[k] > 0)

(* certificates (Stiemke's alternative):  exactly one of each pair exists   *)
IsPosConservation(N, m) == Len(m) = NSp(N) /\ AllPos(m) /\ AllZero(VecMat(m, SMatrix(N), NRx(N)))
IsNonConservCert(N, y)  == Len(y) = NRx(N) /\ SemiPos(MatVec(SMatrix(N), y))
IsPosFlux(N, v)         == Len(v) = NRx(N) /\ AllPos(v) /\ AllZero(MatVec(SMatrix(N), v))
IsNonConsistCert(N, y)  == Len(y) = NSp(N) /\ SemiPos(VecMat(y, SMatrix(N), NRx(N)))

Box(n, K)  == [1..n -> 1..K]
SBox(n, K) == [1..n -> (0 - K)..K]
Conservative(N, K) == \E m \in Box(NSp(N), K) : IsPosConservation(N, m)
NonConserv(N, K)   == \E y \in SBox(NRx(N), K) : IsNonConservCert(N, y)
Consistent(N, K)   == \E v \in Box(NRx(N), K) : IsPosFlux(N, v)
NonConsist(N, K)   == \E y \in SBox(NSp(N), K) : IsNonConsistCert(N, y)

(* ------------------- complexes, linkage classes, deficiency ------------- *)
Complexes(N) == {N.rx[j].l : j \in 1..NRx(N)} \cup {N.rx[j].r : j \in 1..NRx(N)}
Succ(N, c) == {N.rx[j].r : j \in {k \in 1..NRx(N) : N.rx[k].l = c}}
Pred(N, c) == {N.rx[j].l : j \in {k \in 1..NRx(N) : N.rx[k].r = c}}

RECURSIVE GrowU(_, _)
GrowU(N, X) == LET Y == X \cup UNION {Succ(N, c) \cup Pred(N, c) : c \in X}
               IN IF Y = X THEN X ELSE GrowU(N, Y)
RECURSIVE GrowD(_, _)
GrowD(N, X) == LET Y == X \cup UNION {Succ(N, c) : c \in X}
               IN IF Y = X THEN X ELSE GrowD(N, Y)

LinkageClasses(N) == {GrowU(N, {c}) : c \in Complexes(N)}
(* weakly reversible: every linkage class is strongly connected, i.e. every
   reaction arrow lies on a directed cycle *)
WeaklyReversible(N) == \A j \in 1..NRx(N) : N.rx[j].l \in GrowD(N, {N.rx[j].r})
Deficiency(N) == Cardinality(Complexes(N)) - Cardinality(LinkageClasses(N)) - RankS(N)

SubNet(N, L) == [sp |-> N.sp, rx |-> SelectSeq(N.rx, LAMBDA e : e.l \in L)]
LinkageDeficiency(N, L) == Cardinality(L) - 1 - RankS(SubNet(N, L))

(* ----------------------------- siphons, traps --------------------------- *)
IsSiphon(N, X) == /\ X # {}
                  /\ \A j \in 1..NRx(N) :
                        (X \cap DOMAIN N.rx[j].r # {}) => (X \cap DOMAIN N.rx[j].l # {})
IsTrap(N, X)   == /\ X # {}
                  /\ \A j \in 1..NRx(N) :
                        (X \cap DOMAIN N.rx[j].l # {}) => (X \cap DOMAIN N.rx[j].r # {})
Minimal(F) == {X \in F : \A Y \in F : Y \subseteq X => Y = X}
MinimalSiphons(N) == Minimal({X \in SUBSET SpSet(N) : IsSiphon(N, X)})
MinimalTraps(N)   == Minimal({X \in SUBSET SpSet(N) : IsTrap(N, X)})

(* ------------------------------ Petri semantics ------------------------- *)
(* a marking is a function place -> Nat (absent = 0) *)
Tok(m, p) == IF p \in DOMAIN m THEN m[p] ELSE 0
Enabled(m, pre) == \A p \in DOMAIN pre : Tok(m, p) >= pre[p]
Fire(m, pre, post) ==
   [p \in DOMAIN m \cup DOMAIN pre \cup DOMAIN post |-> Tok(m, p) - Coef(pre, p) + Coef(post, p)]
SameMarking(a, b) == \A p \in DOMAIN a \cup DOMAIN b : Tok(a, p) = Tok(b, p)

RECURSIVE FirstFailFrom(_, _)
FirstFailFrom(cl, k) == IF k > Len(cl) THEN "ok"
                        ELSE IF cl[k][2] THEN FirstFailFrom(cl, k + 1) ELSE cl[k][1]
FirstFail(cl) == FirstFailFrom(cl, 1)
(* every failing clause, joined by ";" (for judges whose clauses are independent) *)
RECURSIVE AllFailsFrom(_, _, _)
AllFailsFrom(cl, k, acc) ==
   IF k > Len(cl) THEN (IF acc = "" THEN "ok" ELSE acc)
   ELSE AllFailsFrom(cl, k + 1, IF cl[k][2] THEN acc ELSE IF acc = "" THEN cl[k][1] ELSE acc \o ";" \o cl[k][1])
AllFails(cl) == AllFailsFrom(cl, 1, "")
=============================================================================

------------------------------ MODULE MC_Petri ------------------------------
(***************************************************************************)
(* Native exploration of the extended Petri nets of the cases in           *)
(* IOEnv.CASES: TLC visits every reachable (cnt, marking) of every case.   *)
(* Invariants: markings never negative, the state equation, and agreement  *)
(* of native reachability with the operator Petri!Realizable that judges   *)
(* the implementation (lemma L of DESIGN.md).                              *)
(***************************************************************************)
EXTENDS Petri, Json, IOUtils

Cases == ndJsonDeserialize(IOEnv.CASES)

VARIABLES cid, cnt, marking
vars == <<cid, cnt, marking>>

Net(c)  == Cases[c].net
Flow(c) == Cases[c].flow

Init == /\ cid \in 1..Len(Cases)
        /\ cnt = Zero(NRx(Net(cid)))
        /\ marking = Zero(NSp(Net(cid)))

FireT(j) ==
   LET N == Net(cid) IN
   /\ cnt[j] < Flow(cid)[j]
   /\ \A i \in 1..NSp(N) : marking[i] >= Coef(N.rx[j].l, N.sp[i])
   /\ cnt' = FireCnt(cnt, j)
   /\ marking' = [i \in 1..NSp(N) |-> marking[i] - Coef(N.rx[j].l, N.sp[i]) + Coef(N.rx[j].r, N.sp[i])]
   /\ UNCHANGED cid

Next == \E j \in 1..NRx(Net(cid)) : FireT(j)

NonNegative   == \A i \in DOMAIN marking : marking[i] >= 0
StateEquation == marking = MarkOf(Net(cid), cnt)
TargetReached == cnt = Flow(cid) /\ AllZero(marking)
AgreeLemma    == TargetReached => Realizable(Net(cid), Flow(cid))
(* the converse half: an unrealizable case never reaches the target, a
   realizable one is reported by the operator (checked per case in C20Cases) *)
=============================================================================

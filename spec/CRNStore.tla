----------------------------- MODULE CRNStore -----------------------------
(***************************************************************************)
(* Reaction-network store (synkit.CRN.Hypergraph.CRNHyperGraph): the       *)
(* transition RELATION of every public mutator, written once as pure       *)
(* operators over explicit pre / post store values.                        *)
(*                                                                         *)
(*   - MC_CRNStore builds a constructive state machine (two stores, merge, *)
(*     copy) and model-checks that every step it can take satisfies this   *)
(*     relation, plus the store invariants and the durability properties;  *)
(*   - CRNStoreTrace evaluates the same relation on every call recorded    *)
(*     from the real class.                                                *)
(*                                                                         *)
(* A store value is [edges, species, mol]:                                 *)
(*   edges   : id -> [rule, l, r],  l and r functions species -> count > 0 *)
(*   species : set of labels                                               *)
(*   mol     : partial function species -> label                          *)
(* The implementation's redundant indices (species_to_in_edges,            *)
(* species_to_out_edges, incidence matrix) are NOT state here: they are    *)
(* derived operators, which is exactly what C15 says they must equal.      *)
(***************************************************************************)
EXTENDS Naturals, Integers, FiniteSets, Sequences, TLC

Coef(side, s)  == IF s \in DOMAIN side THEN side[s] ELSE 0
Strip(side, s) == [t \in (DOMAIN side) \ {s} |-> side[t]]
Rxn(rule, l, r) == [rule |-> rule, l |-> l, r |-> r]
SpOf(e)        == DOMAIN e.l \cup DOMAIN e.r
Occ(E)         == UNION {SpOf(E[i]) : i \in DOMAIN E}
InIdx(E, s)    == {i \in DOMAIN E : s \in DOMAIN E[i].r}
OutIdx(E, s)   == {i \in DOMAIN E : s \in DOMAIN E[i].l}
Inc(E, s, i)   == Coef(E[i].r, s) - Coef(E[i].l, s)
Ext(E, i, e)   == [j \in DOMAIN E \cup {i} |-> IF j = i THEN e ELSE E[j]]
Restrict(F, D) == [j \in D |-> F[j]]
IsEmptySide(s) == DOMAIN s = {}
IsEmptyRxn(e)  == IsEmptySide(e.l) /\ IsEmptySide(e.r)
StripRxn(e, s) == [rule |-> e.rule, l |-> Strip(e.l, s), r |-> Strip(e.r, s)]
StripAll(E, s) ==
   LET live == {i \in DOMAIN E : ~IsEmptyRxn(StripRxn(E[i], s))}
   IN  [i \in live |-> StripRxn(E[i], s)]

EmptyStore == [edges |-> <<>>, species |-> {}, mol |-> <<>>]

(* ---- invariants of one store value ------------------------------------ *)
NoEmptyRxn(E)    == \A i \in DOMAIN E : ~IsEmptyRxn(E[i])
PositiveCoefs(E) == \A i \in DOMAIN E : /\ \A s \in DOMAIN E[i].l : E[i].l[s] > 0
                                        /\ \A s \in DOMAIN E[i].r : E[i].r[s] > 0
StoreOK(st) == /\ NoEmptyRxn(st.edges)
               /\ PositiveCoefs(st.edges)
               /\ Occ(st.edges) \subseteq st.species
               /\ DOMAIN st.mol \subseteq st.species

(* species set: exactly the occurring species plus species the caller chose
   to keep (remove_species(prune_orphans=False)); a kept species may be dropped
   later but can never appear from nowhere. *)
SpeciesOK(pre, post, keepnow) ==
   /\ Occ(post.edges) \subseteq post.species
   /\ post.species \subseteq Occ(post.edges) \cup (pre.species \ Occ(pre.edges)) \cup keepnow

(* x.merge(y): every reaction of y is added under a fresh id of its own,
   nothing x already holds is touched *)
MergeOK(Ex, Ey, E2) ==
   LET new == DOMAIN E2 \ DOMAIN Ex IN
   /\ DOMAIN Ex \subseteq DOMAIN E2
   /\ \A i \in DOMAIN Ex : E2[i] = Ex[i]
   /\ Cardinality(new) = Cardinality(DOMAIN Ey)
   /\ \A j \in DOMAIN Ey :
        Cardinality({i \in new : E2[i] = Ey[j]}) = Cardinality({k \in DOMAIN Ey : Ey[k] = Ey[j]})

(* ---- the documented error of a command, "" when it must succeed -------- *)
ExpectedErr(c, pre) ==
   CASE c.op = "add"    -> IF c.id \in DOMAIN pre.edges THEN "KeyError"
                           ELSE IF IsEmptySide(c.l) /\ IsEmptySide(c.r) THEN "ValueError" ELSE ""
     [] c.op = "addgen" -> IF IsEmptySide(c.l) /\ IsEmptySide(c.r) THEN "ValueError" ELSE ""
     [] c.op = "rmrxn"  -> IF c.id \in DOMAIN pre.edges THEN "" ELSE "KeyError"
     [] c.op = "rmsp"   -> IF c.s \in pre.species THEN "" ELSE "KeyError"
     [] c.op = "mol"    -> IF c.s \in pre.species THEN "" ELSE "KeyError"
     [] OTHER           -> ""

(* ---- transition relation: clause list for command c on the target store.
        c.id of "addgen" is the id the store reported (any FRESH id is fine).
        pre/post = target store, opre/opost = the other store --------------- *)
StepClauses(c, err, pre, post, opre, opost) ==
   LET exp == ExpectedErr(c, pre)
       same == post.edges = pre.edges /\ post.species = pre.species /\ post.mol = pre.mol
   IN
   << <<"error-as-documented", err = exp>>,
      <<"state-unchanged-on-error", exp = "" \/ same>>,
      <<"other-store-untouched",
          IF c.op = "copy" THEN post = pre ELSE opost = opre>>,
      <<"edges",
          exp # "" \/
          CASE c.op = "add"    -> post.edges = Ext(pre.edges, c.id, Rxn(c.rule, c.l, c.r))
            [] c.op = "addgen" -> /\ c.id \notin DOMAIN pre.edges      \* no id refers to two reactions
                                  /\ post.edges = Ext(pre.edges, c.id, Rxn(c.rule, c.l, c.r))
            [] c.op = "rmrxn"  -> post.edges = Restrict(pre.edges, DOMAIN pre.edges \ {c.id})
            [] c.op = "rmsp"   -> post.edges = StripAll(pre.edges, c.s)
            [] c.op = "merge"  -> MergeOK(pre.edges, opre.edges, post.edges)
            [] c.op = "copy"   -> opost.edges = pre.edges
            [] c.op = "mol"    -> post.edges = pre.edges
            [] OTHER           -> FALSE>>,
      <<"species",
          exp # "" \/
          CASE c.op = "rmsp"  -> /\ SpeciesOK(pre, post, IF c.prune THEN {} ELSE {c.s})
                                 /\ IF c.prune THEN c.s \notin post.species ELSE c.s \in post.species
            [] c.op = "copy"  -> opost.species = pre.species
            [] c.op = "mol"   -> post.species = pre.species
            [] OTHER          -> SpeciesOK(pre, post, {})>>,
      <<"mol-only-present", DOMAIN post.mol \subseteq post.species /\ DOMAIN opost.mol \subseteq opost.species>>,
      <<"no-empty-reaction", NoEmptyRxn(post.edges) /\ NoEmptyRxn(opost.edges)>>
   >>

RECURSIVE FirstFailFrom(_, _)
FirstFailFrom(cl, k) == IF k > Len(cl) THEN "ok"
                        ELSE IF cl[k][2] THEN FirstFailFrom(cl, k + 1) ELSE cl[k][1]
FirstFail(cl) == FirstFailFrom(cl, 1)
=============================================================================

------------------------------ MODULE C12Cases ------------------------------
(***************************************************************************)
(* C12: maximum common subgraph results are valid and of maximum size.     *)
(* case = [G1, G2, runs |-> << [impl, mcs, g1g2, g2g1] >>]                 *)
(*   g1g2[k] : sequence of pairs <<u in G1, v in G2>>                       *)
(*   g2g1[k] : the same mapping asked in the other direction, <<v, u>>      *)
(***************************************************************************)
EXTENDS LGraph, Json, IOUtils

Cases == ndJsonDeserialize(IOEnv.CASES)

PairSet(m) == {<<m[k][1], m[k][2]>> : k \in DOMAIN m}
Flip(S) == {<<a[2], a[1]>> : a \in S}

RunVerdict(G1, G2, r) ==
   LET maps == [k \in DOMAIN r.g1g2 |-> PairSet(r.g1g2[k])]
       best == MCSSize(G1, G2)
       tag  == r.impl \o (IF r.mcs THEN "-mcs" ELSE "-all")
   IN FirstFail(<<
      <<tag \o ":mapping-has-repeated-keys", \A k \in DOMAIN maps : Cardinality(maps[k]) = Len(r.g1g2[k])>>,
      <<tag \o ":mapping-not-a-valid-common-subgraph", \A k \in DOMAIN maps : ValidCommon(G1, G2, maps[k])>>,
      <<tag \o ":duplicate-mappings", Cardinality({maps[k] : k \in DOMAIN maps}) = Len(maps)>>,
      <<tag \o ":directions-not-mutually-inverse",
          r.hasdir => /\ Len(r.g2g1) = Len(r.g1g2)
                      /\ \A k \in DOMAIN maps : PairSet(r.g2g1[k]) = Flip(maps[k])>>,
      <<tag \o ":maximum-mode-sizes-differ", r.mcs => \A k \in DOMAIN maps : Cardinality(maps[k]) = Cardinality(maps[1])>>,
      <<tag \o ":larger-common-subgraph-exists",
          r.mcs => IF best = 0 THEN Len(maps) = 0 ELSE Len(maps) > 0 /\ Cardinality(maps[1]) = best>>,
      <<tag \o ":reported-size", r.mcs => r.size = best>>
   >>)

RECURSIVE RunsFrom(_, _, _, _)
RunsFrom(G1, G2, runs, k) ==
   IF k > Len(runs) THEN "ok"
   ELSE LET v == RunVerdict(G1, G2, runs[k])
            rest == RunsFrom(G1, G2, runs, k + 1)
        IN IF v = "ok" THEN rest ELSE IF rest = "ok" THEN v ELSE v \o ";" \o rest

Verdict(c) == IF ~WellFormed(c.G1) \/ ~WellFormed(c.G2) THEN "MACHINERY:malformed-graph"
              ELSE RunsFrom(c.G1, c.G2, c.runs, 1)

VARIABLE i
Init == i = 0
Next == /\ i < Len(Cases)
        /\ i' = i + 1
        /\ PrintT("V|" \o ToString(i + 1) \o "|" \o Verdict(Cases[i + 1]))
=============================================================================

--------------------------- MODULE MatcherSession ---------------------------
(***************************************************************************)
(* Query histories on shared graph objects (C07, "no answer depends on     *)
(* which queries, with which attribute selections, were made earlier").    *)
(* An object carries two attribute layers (x, y): engine "el" selects x,    *)
(* engine "elch" selects (x, y).  Engines with wl1_filter share ONE cache   *)
(* of colour histograms.  KeyedByAttrs = TRUE is the contract (a histogram  *)
(* is only reused by a query with the same selection); FALSE models a cache *)
(* keyed by the object alone: TLC must then find a history whose answer     *)
(* differs from the pure function.                                          *)
(***************************************************************************)
EXTENDS Naturals, Sequences, FiniteSets, TLC

CONSTANTS KeyedByAttrs, MaxQ

Objs    == 1..3
\* @type: Seq(<<Int, Int>>);
Content == << <<1, 1>>, <<1, 2>>, <<2, 1>> >>   \* objects 1 and 2 agree on x only
Engines == {"el", "elch"}
\* the selected layers of object o; an unselected layer reads 0 (pairs throughout, so the module also type-checks for the symbolic checker)
\* @type: (Str, Int) => <<Int, Int>>;
Proj(e, o) == IF e = "el" THEN <<Content[o][1], 0>> ELSE Content[o]

VARIABLES cache,   \* key -> histogram
          last,    \* [e, a, b, ans]
          n
vars == <<cache, last, n>>

\* @type: (Str, Int) => <<Int, Str>>;
Key(e, o) == <<o, IF KeyedByAttrs THEN e ELSE "any">>
Lookup(c, e, o) == IF Key(e, o) \in DOMAIN c THEN c[Key(e, o)] ELSE Proj(e, o)
Store(c, e, o)  == IF Key(e, o) \in DOMAIN c THEN c ELSE [k \in DOMAIN c \cup {Key(e, o)} |-> IF k = Key(e, o) THEN Proj(e, o) ELSE c[k]]

Init == cache = [k \in {} |-> <<0, 0>>] /\ last = [e |-> "el", a |-> 1, b |-> 1, ans |-> TRUE] /\ n = 0

Query(e, a, b) ==
   /\ n < MaxQ
   /\ LET c1 == Store(cache, e, a)
          c2 == Store(c1, e, b)
          pre == Lookup(c2, e, a) = Lookup(c2, e, b)          \* the cheap pre-filter
          exact == Proj(e, a) = Proj(e, b)                       \* the real test
      IN /\ cache' = c2
         /\ last' = [e |-> e, a |-> a, b |-> b, ans |-> (pre /\ exact)]
   /\ n' = n + 1

Next == \E e \in Engines, a \in Objs, b \in Objs : Query(e, a, b)
Spec == Init /\ [][Next]_vars

AnswerIsPure == last.ans = (Proj(last.e, last.a) = Proj(last.e, last.b))
=============================================================================

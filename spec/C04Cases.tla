------------------------------ MODULE C04Cases ------------------------------
(***************************************************************************)
(* C04: applying a reaction's own template regenerates it, forwards and     *)
(* backwards.                                                              *)
(* case = [G, H      - the reaction's sides read from RDKit (shared list),   *)
(*         mode      - "implicit" | "rendered" | "explicit",                 *)
(*         want      - [r, p] canonical unmapped sides of the reaction,      *)
(*         got       - << [r, p] >> canonical unmapped sides of every         *)
(*                     reaction in SynReactor.smarts_list,                   *)
(*         what      - description of the application]                       *)
(* Preconditions (decided here from the reaction): balanced, fully mapped,   *)
(* centre hydrogens written consistently for the mode.                       *)
(***************************************************************************)
EXTENDS Rule, Json, IOUtils
PR == INSTANCE Prune

Cases == ndJsonDeserialize(IOEnv.CASES)

RCView(I) ==    \* the centre as an ITS of its own (for the hydrogen-consistency test)
   LET S == RCNodes(I)
       idx == Renum(S)
       m == Cardinality(S)
   IN [n |-> m, tG |-> [k \in 1..m |-> I.tG[idx[k]]], tH |-> [k \in 1..m |-> I.tH[idx[k]]],
       oG |-> [a \in 1..m |-> [b \in 1..m |-> I.oG[idx[a]][idx[b]]]],
       oH |-> [a \in 1..m |-> [b \in 1..m |-> I.oH[idx[a]][idx[b]]]]]

ConsistentH(rc, mode) ==
   IF mode = "explicit" THEN HAtoms(rc) # {} /\ \A v \in Heavy(rc) : rc.tG[v][3] = rc.tH[v][3]
   ELSE HAtoms(rc) = {}
(* the hydrogens written as atoms are exactly centre hydrogens (no spectator hydrogen is written explicitly) *)
NoSpectatorExplicitH(I) == HAtoms(I) \subseteq RCNodes(I)
(* every hydrogen-count or charge change sits on an atom of the centre (else the centre alone cannot describe the reaction) *)
ChangesInsideCentre(I) == \A v \in INodes(I) : I.tG[v] # I.tH[v] => v \in RCNodes(I)

LeftComponents(rc) == LG!NComp([n |-> rc.n, lab |-> [k \in 1..rc.n |-> 0], hc |-> [k \in 1..rc.n |-> 0], adj |-> rc.oG])
(* components of the pattern side of a centre template / of the substrate, in the direction of the application *)
PatternComponents(rc, invert) ==
   LG!NComp([n |-> rc.n, lab |-> [k \in 1..rc.n |-> 0], hc |-> [k \in 1..rc.n |-> 0], adj |-> IF invert THEN rc.oH ELSE rc.oG])
SubstrateComponents(c) ==
   LET M == IF c.invert THEN c.H ELSE c.G
   IN LG!NComp([n |-> M.n, lab |-> [k \in 1..M.n |-> 0], hc |-> [k \in 1..M.n |-> 0], adj |-> M.adj])
(* documented guard of the component-aware search (strict_cc_count, the default): with more substrate fragments than
   pattern components the strategy "comp" returns nothing *)
CompGuard(c, rc) == c.strategy = "comp" /\ ~c.full /\ SubstrateComponents(c) > PatternComponents(rc, c.invert)

(* some heavy atom receives two (or more) explicit hydrogens *)
TwoExplicitHToOneAtom(I) ==
   \/ (\E ya \in Heavy(I) : Cardinality({h \in HAtoms(I) : I.oG[h][ya] = 0 /\ I.oH[h][ya] # 0}) >= 2)
   \/ (\E yb \in Heavy(I) : Cardinality({h \in HAtoms(I) : I.oH[h][yb] = 0 /\ I.oG[h][yb] # 0}) >= 2)

Verdict(c) ==
   LET I == MkITS(c.G, c.H)
       rc == RCView(I)
   IN IF ~Conserved(I) THEN "skip:reaction-not-balanced"
      ELSE IF rc.n = 0 THEN "skip:reaction-without-changed-bond"
      ELSE IF ~ConsistentH(rc, c.mode) \/ ~NoSpectatorExplicitH(I) THEN "skip:centre-hydrogens-not-written-consistently"
      ELSE IF ~c.full /\ ~ChangesInsideCentre(I) THEN "skip:hydrogen-or-charge-change-outside-the-centre"
      ELSE IF CompGuard(c, rc) THEN "skip:comp-strategy-with-more-substrate-fragments-than-pattern-components(documented-guard)"
      ELSE IF \E k \in DOMAIN c.got : c.got[k].r = c.want.r /\ c.got[k].p = c.want.p THEN "ok"
      ELSE "own-template-does-not-regenerate-the-reaction:" \o c.what \o
           (* known findings are identified by their mechanism (see known_findings.json) *)
           (IF /\ \E k \in DOMAIN c.raw : c.raw[k].r = c.want.r /\ c.raw[k].p = c.want.p
               /\ c.mode = "implicit" /\ ~c.full /\ LeftComponents(rc) >= 2
               (* ... and the result set is exactly what the pruning algorithm as implemented (Prune.tla) leaves *)
               /\ \/ "skipped" \in DOMAIN c.model          \* too many raw matches to replay one by one
                  \/ ("pat" \in DOMAIN c.model /\ {c.got[k] : k \in DOMAIN c.got} = PR!ModelResult(c.model))
            THEN "[regenerating-match-removed-by-symmetry-pruning,multi-component-centre]"
            ELSE IF c.mode = "explicit" /\ c.full /\ TwoExplicitHToOneAtom(I)
            THEN "[full-its-template,two-explicit-hydrogens-move-to-one-atom]" ELSE "")

VARIABLE i
Init == i = 0
Next == /\ i < Len(Cases)
        /\ i' = i + 1
        /\ PrintT("V|" \o ToString(i + 1) \o "|" \o Verdict(Cases[i + 1]))
=============================================================================

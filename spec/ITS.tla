--------------------------------- MODULE ITS ---------------------------------
(***************************************************************************)
(* Theory of ITS graphs (imaginary transition state = superposition of the *)
(* reactant graph G and the product graph H of an atom-mapped reaction).    *)
(*                                                                         *)
(* molecular graph  M = [n, t, adj]                                         *)
(*    t[v]   = <<element code, aromatic (0/1), hcount, charge>>             *)
(*    adj[u][v] = bond order in half units (1.0 -> 2, 1.5 -> 3, ...), 0 none *)
(* ITS            I = [n, tG, tH, oG, oH, std]   on the shared node set      *)
(*    std[u][v] = oG - oH as STORED by the implementation (half units)       *)
(* element code 1 is hydrogen.                                              *)
(***************************************************************************)
EXTENDS Naturals, Integers, FiniteSets, Sequences, TLC

HCODE == 1
INodes(I) == 1..I.n
Range(s) == {s[k] : k \in DOMAIN s}

MkITS(G, H) ==
   [n |-> G.n, tG |-> G.t, tH |-> H.t, oG |-> G.adj, oH |-> H.adj,
    std |-> [u \in 1..G.n |-> [v \in 1..G.n |-> G.adj[u][v] - H.adj[u][v]]]]
DecG(I) == [n |-> I.n, t |-> I.tG, adj |-> I.oG]
DecH(I) == [n |-> I.n, t |-> I.tH, adj |-> I.oH]

ItsEdge(I, u, v) == u # v /\ (I.oG[u][v] # 0 \/ I.oH[u][v] # 0)
IsH(I, v) == I.tG[v][1] = HCODE
(* reaction-centre bond: order differs between the sides; H-H bonds always kept *)
RCEdge(I, u, v) == ItsEdge(I, u, v) /\ (I.oG[u][v] # I.oH[u][v] \/ (IsH(I, u) /\ IsH(I, v)))
RCEdges(I) == {<<u, v>> \in INodes(I) \X INodes(I) : u < v /\ RCEdge(I, u, v)}
RCNodes(I) == LET E == RCEdges(I) IN {e[1] : e \in E} \cup {e[2] : e \in E}

Nbrs(I, X) == {v \in INodes(I) : \E u \in X : ItsEdge(I, u, v)}
RECURSIVE Ball(_, _, _)
Ball(I, X, k) == IF k = 0 THEN X ELSE Ball(I, X \cup Nbrs(I, X), k - 1)
ContextNodes(I, k) == Ball(I, RCNodes(I), k)
InducedEdges(I, X) == {<<u, v>> \in X \X X : u < v /\ ItsEdge(I, u, v)}

(* a sub-ITS reported by the implementation: [nodes, t, edges]                *)
(*   nodes : sequence of node indices; t[k] = <<tG, tH>> of nodes[k]            *)
(*   edges : sequence of <<u, v, oG, oH, std>> with u, v node indices           *)
SubNodes(S) == Range(S.nodes)
SubEdgeSet(S) == {<<IF S.edges[k][1] < S.edges[k][2] THEN S.edges[k][1] ELSE S.edges[k][2],
                    IF S.edges[k][1] < S.edges[k][2] THEN S.edges[k][2] ELSE S.edges[k][1]>> : k \in DOMAIN S.edges}
SubLabelsOK(I, S) == \A k \in DOMAIN S.nodes : S.t[k] = <<I.tG[S.nodes[k]], I.tH[S.nodes[k]]>>
SubEdgeAttrsOK(I, S) ==
   \A k \in DOMAIN S.edges : LET e == S.edges[k] IN
      e[3] = I.oG[e[1]][e[2]] /\ e[4] = I.oH[e[1]][e[2]] /\ e[5] = I.std[e[1]][e[2]]
SubNoDup(S) == Cardinality(SubNodes(S)) = Len(S.nodes) /\ Cardinality(SubEdgeSet(S)) = Len(S.edges)
SameSub(A, B) ==
   /\ SubNodes(A) = SubNodes(B)
   /\ SubEdgeSet(A) = SubEdgeSet(B)
   /\ (\A ja \in DOMAIN A.nodes : \A kb \in DOMAIN B.nodes : A.nodes[ja] = B.nodes[kb] => A.t[ja] = B.t[kb])
   /\ (\A je \in DOMAIN A.edges : \A ke \in DOMAIN B.edges :
          ({A.edges[je][1], A.edges[je][2]} = {B.edges[ke][1], B.edges[ke][2]})
             => <<A.edges[je][3], A.edges[je][4], A.edges[je][5]>> = <<B.edges[ke][3], B.edges[ke][4], B.edges[ke][5]>>)

WellFormedM(M) == /\ Len(M.t) = M.n /\ Len(M.adj) = M.n
                  /\ \A u \in 1..M.n : Len(M.adj[u]) = M.n /\ M.adj[u][u] = 0
                  /\ \A u, v \in 1..M.n : M.adj[u][v] = M.adj[v][u]
SameMol(A, B) == A.n = B.n /\ A.t = B.t /\ A.adj = B.adj

(* ---- hydrogens written explicitly or counted in hcount: fold before comparing ---- *)
(* M additionally carries present[v] \in {0,1} (atoms of the common index list that the graph contains) *)
Foldable(M, h) == /\ M.present[h] = 1 /\ M.t[h][1] = HCODE
                  /\ \E v \in 1..M.n : M.adj[h][v] # 0 /\ M.t[v][1] # HCODE
Kept(M) == {v \in 1..M.n : M.present[v] = 1 /\ ~Foldable(M, v)}
FoldedHc(M, v) == M.t[v][3] + Cardinality({h \in 1..M.n : Foldable(M, h) /\ M.adj[h][v] # 0})
TotalH(M) == Cardinality({v \in 1..M.n : M.present[v] = 1 /\ M.t[v][1] = HCODE})
             + (LET RECURSIVE S(_) S(k) == IF k = 0 THEN 0 ELSE (IF M.present[k] = 1 THEN M.t[k][3] ELSE 0) + S(k - 1) IN S(M.n))
FoldEq(A, B) ==
   /\ A.n = B.n
   /\ Kept(A) = Kept(B)
   /\ \A v \in Kept(A) : <<A.t[v][1], A.t[v][2], FoldedHc(A, v), A.t[v][4]>> = <<B.t[v][1], B.t[v][2], FoldedHc(B, v), B.t[v][4]>>
   /\ \A u, v \in Kept(A) : A.adj[u][v] = B.adj[u][v]

RECURSIVE FirstFailFrom(_, _)
FirstFailFrom(cl, k) == IF k > Len(cl) THEN "ok"
                        ELSE IF cl[k][2] THEN FirstFailFrom(cl, k + 1) ELSE cl[k][1]
FirstFail(cl) == FirstFailFrom(cl, 1)
RECURSIVE AllFailsFrom(_, _, _)
AllFailsFrom(cl, k, acc) ==
   IF k > Len(cl) THEN (IF acc = "" THEN "ok" ELSE acc)
   ELSE AllFailsFrom(cl, k + 1, IF cl[k][2] THEN acc ELSE IF acc = "" THEN cl[k][1] ELSE acc \o ";" \o cl[k][1])
AllFails(cl) == AllFailsFrom(cl, 1, "")
=============================================================================

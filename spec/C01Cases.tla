------------------------------ MODULE C01Cases ------------------------------
(***************************************************************************)
(* C01: the ITS encoding of a mapped reaction is lossless and invertible.  *)
(* kind "pair" : [G, H, runs |-> << [cfg, its, dG, dH] >>]   graph level     *)
(* kind "rsmi" : [G, H    - atoms/bonds read from RDKit directly,            *)
(*                gG, gH  - rsmi_to_graph, its, dG, dH,                       *)
(*                bG, bH  - RDKit reading of its_to_rsmi(its) on the same     *)
(*                          index list (present flags), rt_ok,                *)
(*                unm |-> [r_in, p_in, r_out, p_out]]                         *)
(***************************************************************************)
EXTENDS ITS, Json, IOUtils

Cases == ndJsonDeserialize(IOEnv.CASES)

Diff(G, H) == [u \in 1..G.n |-> [v \in 1..G.n |-> G.adj[u][v] - H.adj[u][v]]]
(* ignore_aromaticity: a difference of less than one bond order (orders are in half units here) is reported as 0;
   the (before, after) pair itself and the decomposition are unaffected *)
DiffIA(G, H) == [u \in 1..G.n |-> [v \in 1..G.n |->
                   LET d == G.adj[u][v] - H.adj[u][v] IN IF d > -2 /\ d < 2 THEN 0 ELSE d]]

ItsClausesIA(tag, G, H, its, dG, dH, ia) ==
   << <<tag \o ":its-node-set-is-not-the-union", its.n = G.n /\ its.extra_nodes = 0>>,
      <<tag \o ":its-node-labels", its.tG = G.t /\ its.tH = H.t>>,
      <<tag \o ":its-bonds-are-not-the-union-with-order-pairs", its.oG = G.adj /\ its.oH = H.adj>>,
      <<tag \o ":its-order-difference", its.std = (IF ia THEN DiffIA(G, H) ELSE Diff(G, H))>>,
      <<tag \o ":decomposition-reactant-side", SameMol(dG, G) /\ \A v \in 1..G.n : dG.present[v] = 1>>,
      <<tag \o ":decomposition-product-side", SameMol(dH, H) /\ \A v \in 1..H.n : dH.present[v] = 1>> >>

ItsClauses(tag, G, H, its, dG, dH) == ItsClausesIA(tag, G, H, its, dG, dH, FALSE)

RECURSIVE RunClauses(_, _, _, _)
RunClauses(G, H, runs, k) ==
   IF k > Len(runs) THEN <<>>
   ELSE ItsClausesIA(runs[k].cfg, G, H, runs[k].its, runs[k].dG, runs[k].dH, runs[k].ignore_arom) \o RunClauses(G, H, runs, k + 1)

Verdict(c) ==
   IF ~WellFormedM(c.G) \/ ~WellFormedM(c.H) THEN "MACHINERY:malformed-input-graph"
   ELSE IF c.kind = "pair" THEN AllFails(RunClauses(c.G, c.H, c.runs, 1))
   ELSE AllFails(
      << <<"rsmi_to_graph-reactants", SameMol(c.gG, c.G)>>,
         <<"rsmi_to_graph-products", SameMol(c.gH, c.H)>> >>
      \o ItsClauses("rsmi_to_its", c.G, c.H, c.its, c.dG, c.dH)
      \o << <<"its_to_rsmi-fails", c.rt_ok>>,
            <<"its_to_rsmi-not-atom-map-equivalent-reactants", c.rt_ok => FoldEq(c.bG, c.G)>>,
            <<"its_to_rsmi-not-atom-map-equivalent-products", c.rt_ok => FoldEq(c.bH, c.H)>>,
            <<"its_to_rsmi-unmapped-reactants-differ", c.rt_ok => c.unm.r_in = c.unm.r_out>>,
            <<"its_to_rsmi-unmapped-products-differ", c.rt_ok => c.unm.p_in = c.unm.p_out>> >>)

VARIABLE i
Init == i = 0
Next == /\ i < Len(Cases)
        /\ i' = i + 1
        /\ PrintT("V|" \o ToString(i + 1) \o "|" \o Verdict(Cases[i + 1]))
=============================================================================

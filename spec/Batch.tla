-------------------------------- MODULE Batch --------------------------------
(***************************************************************************)
(* Result cache of batched rule application (_RuleApplier) in one worker    *)
(* process, with the allocator made explicit: substrate objects are          *)
(* allocated at an ADDRESS, freed, and addresses are re-used.                *)
(*   heap  : address -> content (live objects)                               *)
(*   cache : FIFO sequence of [addr, res] (capacity Cap), keyed by address    *)
(*   last  : [content, res] of the last application                           *)
(* The result of applying the (fixed) rules to a substrate is a function of   *)
(* its CONTENT; it is modelled as the content itself.                         *)
(* Pin = TRUE : the cache keeps the objects it keys on alive, so their         *)
(*              addresses cannot be handed out again (the contract);          *)
(* Pin = FALSE: a cache keyed by the bare address - TLC must find             *)
(*              Alloc X; Apply; Free; Alloc Y at the same address; Apply.      *)
(***************************************************************************)
EXTENDS Naturals, Sequences, FiniteSets, TLC

CONSTANTS
    \* @type: Set(Int);
    Addrs,
    \* @type: Set(Int);
    Contents,
    \* @type: Int;
    Cap,
    \* @type: Bool;
    Pin,
    \* @type: Int;
    MaxOps

VARIABLES
    \* @type: Int -> Int;
    heap,
    \* @type: Seq({addr: Int, res: Int});
    cache,
    \* @type: {content: Int, res: Int};
    last,
    \* @type: Int;
    ops
vars == <<heap, cache, last, ops>>

Live == DOMAIN heap
Pinned == IF Pin THEN {cache[k].addr : k \in DOMAIN cache} ELSE {}
Hit(a) == {k \in DOMAIN cache : cache[k].addr = a}

Init == heap = [x \in {} |-> 0] /\ cache = <<>> /\ last = [content |-> 0, res |-> 0] /\ ops = 0

Alloc(c) == /\ ops < MaxOps
            /\ \E a \in Addrs \ (Live \cup Pinned) :
                  heap' = [x \in Live \cup {a} |-> IF x = a THEN c ELSE heap[x]]
            /\ UNCHANGED <<cache, last>> /\ ops' = ops + 1
Free(a) == /\ ops < MaxOps /\ a \in Live
           /\ heap' = [x \in Live \ {a} |-> heap[x]]
           /\ UNCHANGED <<cache, last>> /\ ops' = ops + 1
Apply(a) == /\ ops < MaxOps /\ a \in Live
            /\ IF Hit(a) # {}
               THEN /\ last' = [content |-> heap[a], res |-> cache[CHOOSE k \in Hit(a) : TRUE].res]
                    /\ UNCHANGED cache
               ELSE /\ last' = [content |-> heap[a], res |-> heap[a]]
                    /\ cache' = (IF Len(cache) >= Cap THEN Tail(cache) ELSE cache) \o <<[addr |-> a, res |-> heap[a]]>>
            /\ UNCHANGED heap /\ ops' = ops + 1

Next == (\E c \in Contents : Alloc(c)) \/ (\E a \in Addrs : Free(a) \/ Apply(a))
Spec == Init /\ [][Next]_vars

ResultIsPure == last.res = last.content
=============================================================================

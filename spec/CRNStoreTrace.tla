--------------------------- MODULE CRNStoreTrace ---------------------------
(***************************************************************************)
(* Validates call histories recorded from the real CRNHyperGraph against   *)
(* the transition relation of CRNStore.  One ndjson line = one history:    *)
(*   [ev |-> << [x, c, err, post |-> [A |-> store, B |-> store]] ... >>]   *)
(* where a logged store carries the public attributes after the call:      *)
(*   edges, species, mol, inx, outx (the two indices), incidence matrices  *)
(*   (sparse and dense) and idok (every edge stored under its own id).     *)
(* Both stores start empty.  Verdict per history: "ok" or                  *)
(*   ev<k>:<op>:<failing clause>.                                          *)
(***************************************************************************)
EXTENDS CRNStore, Json, IOUtils

Cases == ndJsonDeserialize(IOEnv.CASES)

Range(s) == {s[k] : k \in DOMAIN s}
NoDup(s) == Cardinality(Range(s)) = Len(s)
ToStore(j) == [edges |-> j.edges, species |-> Range(j.species), mol |-> j.mol]

(* the redundant indices and matrices must equal the derived operators *)
DerivedClauses(j, tag) ==
   LET E == j.edges
       S == Range(j.species)
   IN
   << <<"edge-stored-under-own-id-" \o tag, j.idok>>,
      <<"in-index-" \o tag,
          /\ S \subseteq DOMAIN j.inx
          /\ \A s \in DOMAIN j.inx : NoDup(j.inx[s]) /\ Range(j.inx[s]) = InIdx(E, s)>>,
      <<"out-index-" \o tag,
          /\ S \subseteq DOMAIN j.outx
          /\ \A s \in DOMAIN j.outx : NoDup(j.outx[s]) /\ Range(j.outx[s]) = OutIdx(E, s)>>,
      <<"incidence-axes-" \o tag,
          /\ NoDup(j.inc.sp) /\ Range(j.inc.sp) = S
          /\ NoDup(j.inc.ed) /\ Range(j.inc.ed) = DOMAIN E>>,
      <<"incidence-sparse-" \o tag,
          /\ \A k \in DOMAIN j.inc.m :
                LET t == j.inc.m[k] IN t[1] \in S /\ t[2] \in DOMAIN E /\ t[3] = Inc(E, t[1], t[2])
          /\ \A s \in S, i \in DOMAIN E :
                Inc(E, s, i) # 0 => \E k \in DOMAIN j.inc.m : j.inc.m[k][1] = s /\ j.inc.m[k][2] = i>>,
      <<"incidence-dense-" \o tag,
          /\ Len(j.inc.d) = Len(j.inc.sp)
          /\ \A a \in DOMAIN j.inc.d :
                /\ Len(j.inc.d[a]) = Len(j.inc.ed)
                /\ \A b \in DOMAIN j.inc.d[a] : j.inc.d[a][b] = Inc(E, j.inc.sp[a], j.inc.ed[b])>>
   >>

RECURSIVE Walk(_, _, _, _)
Walk(ev, k, A, B) ==
   IF k > Len(ev) THEN "ok"
   ELSE LET e   == ev[k]
            A2  == ToStore(e.post.A)
            B2  == ToStore(e.post.B)
            onA == e.x = "A"
            v   == FirstFail(StepClauses(e.c, e.err,
                                         IF onA THEN A ELSE B, IF onA THEN A2 ELSE B2,
                                         IF onA THEN B ELSE A, IF onA THEN B2 ELSE A2)
                             \o DerivedClauses(e.post.A, "A") \o DerivedClauses(e.post.B, "B"))
        IN IF v = "ok" THEN Walk(ev, k + 1, A2, B2)
           ELSE "ev" \o ToString(k) \o ":" \o e.c.op \o ":" \o v

Verdict(c) == Walk(c.ev, 1, EmptyStore, EmptyStore)

VARIABLE i
Init == i = 0
Next == /\ i < Len(Cases)
        /\ i' = i + 1
        /\ PrintT("V|" \o ToString(i + 1) \o "|" \o Verdict(Cases[i + 1]))
=============================================================================

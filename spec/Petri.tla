------------------------------- MODULE Petri -------------------------------
(***************************************************************************)
(* Petri-net semantics of a reaction network and pathway realizability     *)
(* (synkit.CRN.Petri.net / synkit.CRN.Path.realizability).                 *)
(*                                                                         *)
(* A flow assigns to every reaction the number of times it has to fire.    *)
(* The extended net of build_petri_net_from_flow has, per reaction e, a    *)
(* supply place holding flow(e) tokens and a target place that must hold   *)
(* flow(e) tokens at the end; species places start and end empty.  In the  *)
(* abstract state this is the vector cnt of firing counts (cnt[j] <=       *)
(* flow[j]) and the species marking, which the state equation ties to cnt. *)
(***************************************************************************)
EXTENDS CRN

Zero(n) == [k \in 1..n |-> 0]
MarkOf(N, cnt) == MatVec(SMatrix(N), cnt)                  \* state equation  m = S cnt
CanFire(N, flow, cnt, j) ==
   /\ cnt[j] < flow[j]
   /\ LET m == MarkOf(N, cnt) IN
      \A i \in 1..NSp(N) : m[i] >= Coef(N.rx[j].l, N.sp[i])
FireCnt(cnt, j) == [cnt EXCEPT ![j] = cnt[j] + 1]

Step(N, flow, X) == UNION {{FireCnt(c, j) : j \in {k \in 1..NRx(N) : CanFire(N, flow, c, k)}} : c \in X}
RECURSIVE Closure(_, _, _)
Closure(N, flow, X) == LET Y == X \cup Step(N, flow, X) IN IF Y = X THEN X ELSE Closure(N, flow, Y)

(* the pathway is realizable: some ordering fires every reaction flow-many
   times, never drives a species negative, and returns every species to 0 *)
Realizable(N, flow) ==
   /\ AllZero(MarkOf(N, flow))
   /\ flow \in Closure(N, flow, {Zero(NRx(N))})

(* validate a returned firing sequence (indices of reactions) step by step *)
RECURSIVE WalkCert(_, _, _, _, _)
WalkCert(N, flow, cert, k, cnt) ==
   IF k > Len(cert) THEN IF cnt # flow THEN "fires-each-reaction-flow-times"
                         ELSE IF ~AllZero(MarkOf(N, cnt)) THEN "returns-species-to-zero" ELSE "ok"
   ELSE LET j == cert[k] IN
        IF j \notin 1..NRx(N) THEN "unknown-transition"
        ELSE IF cnt[j] >= flow[j] THEN "fires-a-reaction-too-often"
        ELSE IF ~CanFire(N, flow, cnt, j) THEN "fires-a-disabled-transition"
        ELSE WalkCert(N, flow, cert, k + 1, FireCnt(cnt, j))
CertVerdict(N, flow, cert) == WalkCert(N, flow, cert, 1, Zero(NRx(N)))
=============================================================================

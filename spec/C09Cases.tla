------------------------------ MODULE C09Cases ------------------------------
(***************************************************************************)
(* C09: reaction normal forms preserve the reaction; equivalence checks are *)
(* exact.                                                                  *)
(* kind "canon": [backend, G, H  - input sides read from RDKit,              *)
(*                oG, oH  - sides of canonical_rsmi read from RDKit, given    *)
(*                          on the input's atoms through the returned         *)
(*                          pairing (pi: input map -> output map),            *)
(*                ok, unm |-> [r_in, p_in, r_out, p_out],                     *)
(*                out, again   - canonical_rsmi and its re-canonicalisation,  *)
(*                distinct, variants - outputs for renumbered / re-rooted     *)
(*                          writings of the same reaction]                    *)
(* kind "std"  : [outs - Standardize.fit of several writings, twice - fit o fit] *)
(* kind "aam"  : [A, B - reaction centres (or ITS) of the two mappings as      *)
(*                labelled graphs, verdict, method]                            *)
(* kind "bal"  : [R, P - atoms of both sides (all atoms), verdict]             *)
(***************************************************************************)
EXTENDS ITS, Json, IOUtils
LG == INSTANCE LGraph

Cases == ndJsonDeserialize(IOEnv.CASES)

Set(s) == {s[k] : k \in DOMAIN s}

(* element bag with hydrogens and total charge of one side: M = [n, t] *)
ElCount(M, e) == Cardinality({v \in 1..M.n : M.t[v][1] = e})
RECURSIVE SumHc(_, _)
SumHc(M, k) == IF k = 0 THEN 0 ELSE M.t[k][3] + SumHc(M, k - 1)
RECURSIVE SumCh(_, _)
SumCh(M, k) == IF k = 0 THEN 0 ELSE M.t[k][4] + SumCh(M, k - 1)
HTotal(M) == ElCount(M, HCODE) + SumHc(M, M.n)
Elements(M) == {M.t[v][1] : v \in 1..M.n} \ {HCODE}
BalancedSides(R, P) ==
   /\ \A e \in Elements(R) \cup Elements(P) : ElCount(R, e) = ElCount(P, e)
   /\ HTotal(R) = HTotal(P)
   /\ SumCh(R, R.n) = SumCh(P, P.n)

Verdict(c) ==
   CASE c.kind = "canon" ->
        IF ~c.ok THEN c.backend \o ":canonicalisation-failed"
        ELSE AllFails(<<
           <<c.backend \o ":output-not-atom-map-equivalent-to-the-input(reactants)", FoldEq(c.oG, c.G)>>,
           <<c.backend \o ":output-not-atom-map-equivalent-to-the-input(products)", FoldEq(c.oH, c.H)>>,
           <<c.backend \o ":unmapped-reactants-or-products-changed", c.unm.r_in = c.unm.r_out /\ c.unm.p_in = c.unm.p_out>>,
           <<c.backend \o ":output-is-not-a-fixed-point", c.again = c.out>>,
           <<c.backend \o ":output-depends-on-numbering-or-atom-order-although-all-atoms-are-distinguishable",
                c.distinct => \A k \in DOMAIN c.variants : c.variants[k] = c.out>>
        >>)
     [] c.kind = "std" ->
        AllFails(<<
           <<"standardise-not-idempotent", \A k \in DOMAIN c.outs : c.twice[k] = c.outs[k]>>,
           <<"standardise-depends-on-atom-order-fragment-order-or-map-numbers", \A k \in DOMAIN c.outs : c.outs[k] = c.outs[1]>>
        >>)
     [] c.kind = "aam" ->
        IF c.verdict = LG!IsIso(c.A, c.B) THEN "ok"
        ELSE IF c.verdict THEN c.method \o ":accepts-a-mapping-that-is-not-equivalent"
        ELSE c.method \o ":rejects-an-equivalent-mapping"
     [] c.kind = "bal" ->
        IF c.verdict = BalancedSides(c.R, c.P) THEN "ok"
        ELSE IF c.verdict THEN "balance-check-accepts-an-unbalanced-reaction" ELSE "balance-check-rejects-a-balanced-reaction"

VARIABLE i
Init == i = 0
Next == /\ i < Len(Cases)
        /\ i' = i + 1
        /\ PrintT("V|" \o ToString(i + 1) \o "|" \o Verdict(Cases[i + 1]))
=============================================================================

SPECIFICATION Spec
INVARIANT AnswerIsPure
CHECK_DEADLOCK FALSE

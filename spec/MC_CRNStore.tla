---------------------------- MODULE MC_CRNStore ----------------------------
(***************************************************************************)
(* Constructive two-store state machine over a small alphabet.  TLC        *)
(* explores it completely and checks                                       *)
(*   - StoreOK of both stores in every reachable state,                    *)
(*   - StepConforms: every step satisfies the relation CRNStore!StepClauses *)
(*     (the relation that is evaluated on traces of the real class),       *)
(*   - Durable / CopyIsolated as action properties.                        *)
(* `last` (command + result) makes every distinct transition a distinct    *)
(* state so that the dump can be replayed transition by transition.        *)
(***************************************************************************)
EXTENDS CRNStore

CONSTANTS MaxLive, Rules, TwoStores, SmallMenu,
          GenCollides   \* TRUE: the defect repaired by cc7cbb1 - a generated id may be one that is already stored (the old reaction is overwritten)

VARIABLES st,     \* st[x] : store value, x \in {"A","B"}
          last    \* [c |-> command, err |-> result, x |-> target]
vars == <<st, last>>

Sp       == {"A", "B", "C"}
SideMenu == IF SmallMenu THEN { <<>>, [A |-> 1], [A |-> 1, B |-> 2] }
            ELSE { <<>>, [A |-> 1], [B |-> 1], [A |-> 1, B |-> 1], [A |-> 2], [C |-> 1] }
IdMenu   == IF SmallMenu THEN {"r_1"} ELSE {"r_1", "r_2", "x"}   \* caller-chosen ids that look like generated ones
GenPool  == IF SmallMenu THEN {"r_1", "r_2"} ELSE {"r_1", "r_2", "r_3", "q_1"}  \* ids the store may generate
Names    == IF TwoStores THEN {"A", "B"} ELSE {"A"}
Other(x) == IF x = "A" THEN "B" ELSE "A"

Cmd(op, id, rule, l, r, s, prune) ==
   [op |-> op, id |-> id, rule |-> rule, l |-> l, r |-> r, s |-> s, prune |-> prune]

Init == /\ st = [x \in {"A", "B"} |-> EmptyStore]
        /\ last = [c |-> Cmd("init", "", "", <<>>, <<>>, "", FALSE), err |-> "", x |-> "A"]

MolFollow(m, S) == Restrict(m, DOMAIN m \cap S)

Apply(x, c, err, E2, S2, M2) ==
   /\ st' = [st EXCEPT ![x] = [edges |-> E2, species |-> S2, mol |-> M2]]
   /\ last' = [c |-> c, err |-> err, x |-> x]

Reject(x, c, err) == /\ st' = st /\ last' = [c |-> c, err |-> err, x |-> x]

KeptChoices(x, E2, extra) ==
   { Occ(E2) \cup K : K \in SUBSET ((st[x].species \ Occ(st[x].edges)) \cup extra) }

Do(x, c, E2, extra) ==   \* successful mutation of store x to edges E2
   \E S2 \in KeptChoices(x, E2, extra) :
      Apply(x, c, "", E2, S2, MolFollow(st[x].mol, S2))

AddExplicit(x) == \E id \in IdMenu, rule \in Rules, l \in SideMenu, r \in SideMenu :
   LET c == Cmd("add", id, rule, l, r, "", FALSE) IN
   IF id \in DOMAIN st[x].edges THEN Reject(x, c, "KeyError")
   ELSE IF l = <<>> /\ r = <<>> THEN Reject(x, c, "ValueError")
   ELSE Do(x, c, Ext(st[x].edges, id, Rxn(rule, l, r)), {})

AddGen(x) == \E rule \in Rules, l \in SideMenu, r \in SideMenu :
   IF l = <<>> /\ r = <<>> THEN Reject(x, Cmd("addgen", "", rule, l, r, "", FALSE), "ValueError")
   ELSE \E id \in (IF GenCollides THEN GenPool ELSE GenPool \ DOMAIN st[x].edges) :
        Do(x, Cmd("addgen", id, rule, l, r, "", FALSE),
           [i \in DOMAIN st[x].edges \cup {id} |-> IF i = id THEN Rxn(rule, l, r) ELSE st[x].edges[i]], {})

RemoveRxn(x) == \E id \in IdMenu \cup GenPool :
   LET c == Cmd("rmrxn", id, "", <<>>, <<>>, "", FALSE) IN
   IF id \notin DOMAIN st[x].edges THEN Reject(x, c, "KeyError")
   ELSE Do(x, c, Restrict(st[x].edges, DOMAIN st[x].edges \ {id}), {})

RemoveSpecies(x) == \E s \in Sp, prune \in BOOLEAN :
   LET c == Cmd("rmsp", "", "", <<>>, <<>>, s, prune) IN
   IF s \notin st[x].species THEN Reject(x, c, "KeyError")
   ELSE LET E2 == StripAll(st[x].edges, s) IN
        IF prune
        THEN \E S2 \in {S \in KeptChoices(x, E2, {}) : s \notin S} :
                Apply(x, c, "", E2, S2, MolFollow(st[x].mol, S2))
        ELSE \E S2 \in {S \in KeptChoices(x, E2, {s}) : s \in S} :
                Apply(x, c, "", E2, S2, MolFollow(st[x].mol, S2))

Injections(D, R) == {f \in [D -> R] : \A a, b \in D : a # b => f[a] # f[b]}

Merge(x) ==
   LET y == Other(x)
       Ey == st[y].edges
       c == Cmd("merge", "", "", <<>>, <<>>, "", FALSE) IN
   /\ TwoStores
   /\ \E nu \in Injections(DOMAIN Ey, (IdMenu \cup GenPool) \ DOMAIN st[x].edges) :
        LET E2 == [i \in DOMAIN st[x].edges \cup {nu[j] : j \in DOMAIN Ey} |->
                     IF i \in DOMAIN st[x].edges THEN st[x].edges[i]
                     ELSE Ey[CHOOSE j \in DOMAIN Ey : nu[j] = i]]
        IN Do(x, c, E2, {})

Copy(x) ==
   /\ TwoStores
   /\ st' = [st EXCEPT ![Other(x)] = st[x]]
   /\ last' = [c |-> Cmd("copy", "", "", <<>>, <<>>, "", FALSE), err |-> "", x |-> x]

AssignMol(x) == \E s \in Sp :
   LET c == Cmd("mol", "", "", <<>>, <<>>, s, FALSE) IN
   IF s \notin st[x].species THEN Reject(x, c, "KeyError")
   ELSE Apply(x, c, "", st[x].edges, st[x].species, [t \in DOMAIN st[x].mol \cup {s} |-> "m"])

Next == \E x \in Names :
   \/ AddExplicit(x) \/ AddGen(x) \/ RemoveRxn(x) \/ RemoveSpecies(x)
   \/ Merge(x) \/ Copy(x) \/ AssignMol(x)

Spec == Init /\ [][Next]_vars

View == st

Bound == \A x \in {"A", "B"} : Cardinality(DOMAIN st[x].edges) <= MaxLive

-----------------------------------------------------------------------------
StoresOK == \A x \in {"A", "B"} : StoreOK(st[x])

(* every step of the machine is a step of the relation used on real traces *)
StepConforms ==
   [][ LET x == last'.x IN
       FirstFail(StepClauses(last'.c, last'.err, st[x], st'[x], st[Other(x)], st'[Other(x)])) = "ok" ]_vars

(* a stored reaction leaves, or changes, only through the call that names it *)
Durable ==
   [][ \A x \in {"A", "B"} : \A i \in DOMAIN st[x].edges :
         \/ (i \in DOMAIN st'[x].edges /\ st'[x].edges[i] = st[x].edges[i])
         \/ (last'.x = x /\ last'.c.op = "rmrxn" /\ last'.c.id = i)
         \/ (last'.x = x /\ last'.c.op = "rmsp" /\ last'.c.s \in SpOf(st[x].edges[i])
              /\ (i \in DOMAIN st'[x].edges => st'[x].edges[i] = StripRxn(st[x].edges[i], last'.c.s)))
         \/ (last'.x = Other(x) /\ last'.c.op = "copy") ]_vars

(* a copy is unaffected by later edits of the original, and vice versa *)
CopyIsolated ==
   [][ last'.c.op # "copy" => st'[Other(last'.x)] = st[Other(last'.x)] ]_vars
=============================================================================

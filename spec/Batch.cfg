SPECIFICATION Spec
INVARIANT ResultIsPure
CHECK_DEADLOCK FALSE

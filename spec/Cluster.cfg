SPECIFICATION Spec
INVARIANT PartitionOK
CHECK_DEADLOCK FALSE

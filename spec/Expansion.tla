------------------------------ MODULE Expansion ------------------------------
(***************************************************************************)
(* Rule-based network expansion (synkit/CRN/DAG/syncrn.py, SynCRN.build)   *)
(* as a transition system, written the way the code is written: one        *)
(* operator per method of the build loop.                                  *)
(*                                                                         *)
(*   InitPool        _init_pool                                            *)
(*   MakeTasks       _make_tasks_for_step (+ _iter_mixtures_*, the         *)
(*                   attempted-once filter of _task_from_mix, both caps)   *)
(*   (running a task is the chemistry: it is not specified here, the       *)
(*    results are an input of Integrate; each (rule, mixture) is run at    *)
(*    most once, which is what makes that sound)                           *)
(*   Integrate       _integrate_results / _integrate_one_result /          *)
(*                   _delta_keep_ids / _update_pool_with_products          *)
(*   Continue        the loop control of build                             *)
(*                                                                         *)
(* Species are integers whose order is the order of the code's species     *)
(* keys (it sorts them as strings).  Rules are 1..Len(cfg.arity).          *)
(* cfg = [arity, maxComp, useFrontier, capMix, capTasks, skipNoChange,     *)
(*        allowEmpty, dedupDelta, dedupAcross, repeats]                    *)
(* state = [pool, frontier, seen, delta, nodes, edges]                     *)
(*   nodes : sequence in allocation order (node id = position) of          *)
(*           [kind |-> "s", key] and [kind |-> "e", step, rule, app]       *)
(*   edges : set of <<from id, to id>>                                     *)
(*   seen  : attempted <<rule, mixture>> pairs, delta : recorded changes    *)
(***************************************************************************)
EXTENDS Naturals, Integers, FiniteSets, Sequences, TLC

Range(s) == {s[k] : k \in DOMAIN s}
Min2(a, b) == IF a <= b THEN a ELSE b
Max2(a, b) == IF a >= b THEN a ELSE b
Take(s, n) == SubSeq(s, 1, Min2(Len(s), n))

RECURSIVE Asc(_)          \* the elements of a finite set of integers, ascending
Asc(S) == IF S = {} THEN <<>>
              ELSE LET m == CHOOSE x \in S : \A y \in S : x <= y IN <<m>> \o Asc(S \ {m})

RECURSIVE Insert(_, _)        \* insertion into an ascending sequence (duplicates kept)
Insert(s, x) == IF s = <<>> THEN <<x>>
                ELSE IF x <= Head(s) THEN <<x>> \o s ELSE <<Head(s)>> \o Insert(Tail(s), x)
RECURSIVE SortBag(_)          \* a sequence sorted ascending, duplicates kept
SortBag(s) == IF s = <<>> THEN <<>> ELSE Insert(SortBag(Tail(s)), Head(s))

RECURSIVE Flatten(_)
Flatten(ss) == IF ss = <<>> THEN <<>> ELSE Head(ss) \o Flatten(Tail(ss))

RECURSIVE Combos(_, _)        \* the m-element subsequences of s, in lexicographic order of positions
Combos(s, m) ==
   IF m = 0 THEN << <<>> >>
   ELSE IF Len(s) < m THEN <<>>
   ELSE LET tails == Combos(Tail(s), m - 1)
        IN [k \in 1..Len(tails) |-> <<Head(s)>> \o tails[k]] \o Combos(Tail(s), m)

(* ---- mixtures offered to a rule of arity k ------------------------------ *)
(* every mixture holds one member f of the frontier and k-1 other members of the pool; it is written sorted;     *)
(* a mixture of two frontier members is therefore offered twice (the attempted-once filter removes the repeat)   *)
MixesWith(f, P, k) ==
   LET cs == Combos(Asc(P \ {f}), k - 1)
   IN [j \in 1..Len(cs) |-> Asc({f} \cup Range(cs[j]))]
MixStream(k, F, P, useFrontier) ==
   IF P = {} THEN <<>>
   ELSE LET fs == Asc(IF useFrontier THEN F ELSE P)
        IN Flatten([j \in 1..Len(fs) |-> MixesWith(fs[j], P, k)])
(* the generators stop after `cap` mixtures, but test the cap only after yielding one *)
Offered(k, F, P, useFrontier, cap) == Take(MixStream(k, F, P, useFrontier), Max2(cap, 1))

(* ---- _make_tasks_for_step ------------------------------------------------ *)
RECURSIVE MixLoop(_, _, _, _)
MixLoop(r, stream, j, acc) ==
   IF j > Len(stream) \/ acc.budget <= 0 THEN acc
   ELSE LET key == <<r, stream[j]>>
        IN IF key \in acc.seen THEN MixLoop(r, stream, j + 1, acc)
           ELSE MixLoop(r, stream, j + 1,
                        [tasks |-> Append(acc.tasks, key), seen |-> acc.seen \cup {key}, budget |-> acc.budget - 1])
RECURSIVE RuleLoop(_, _, _, _)
RuleLoop(r, acc, st, cfg) ==
   IF r > Len(cfg.arity) \/ acc.budget <= 0 THEN acc
   ELSE IF cfg.arity[r] > cfg.maxComp \/ cfg.arity[r] < 1 THEN RuleLoop(r + 1, acc, st, cfg)
   ELSE RuleLoop(r + 1,
                 MixLoop(r, Offered(cfg.arity[r], st.frontier, st.pool, cfg.useFrontier, Min2(cfg.capMix, acc.budget)), 1, acc),
                 st, cfg)
(* result: [tasks, seen, budget] *)
MakeTasks(st, cfg) == RuleLoop(1, [tasks |-> <<>>, seen |-> st.seen, budget |-> cfg.capTasks], st, cfg)

(* ---- nodes ------------------------------------------------------------------ *)
SpeciesKeys(nodes) == {nodes[k].key : k \in {j \in DOMAIN nodes : nodes[j].kind = "s"}}
IdOf(nodes, s) == CHOOSE k \in DOMAIN nodes : nodes[k].kind = "s" /\ nodes[k].key = s
RECURSIVE AddSpecies(_, _)    \* _add_species_node for each member of a sequence, in order
AddSpecies(nodes, ps) ==
   IF ps = <<>> THEN nodes
   ELSE AddSpecies(IF Head(ps) \in SpeciesKeys(nodes) THEN nodes ELSE Append(nodes, [kind |-> "s", key |-> Head(ps)]), Tail(ps))
Events(nodes) == {k \in DOMAIN nodes : nodes[k].kind = "e"}

(* ---- _init_pool ---------------------------------------------------------- *)
InitPool(seeds) ==
   [pool |-> Range(seeds), frontier |-> Range(seeds), seen |-> {}, delta |-> {},
    nodes |-> AddSpecies(<<>>, seeds), edges |-> {}]

(* ---- _integrate_one_result, for one product mixture ------------------------ *)
(* acc = [st, next]; prod = the product species of one proposed reaction, in the order returned *)
IntegrateMix(acc, cfg, step, r, mix, prod) ==
   LET st        == acc.st
       nodes1    == AddSpecies(st.nodes, prod)              \* product species get a node even if the reaction is dropped
       unchanged == Range(mix) \cap Range(prod)
       rkeep     == SelectSeq(mix, LAMBDA x : x \notin unchanged)
       pkeep     == SelectSeq(prod, LAMBDA x : x \notin unchanged)
       dkey      == <<IF cfg.dedupAcross THEN 0 ELSE r, SortBag(rkeep), SortBag(pkeep)>>
       dropped   == \/ cfg.skipNoChange /\ rkeep = <<>> /\ pkeep = <<>>
                    \/ ~cfg.allowEmpty /\ (rkeep = <<>> \/ pkeep = <<>>)
                    \/ cfg.dedupDelta /\ dkey \in st.delta
   IN IF dropped THEN [st |-> [st EXCEPT !.nodes = nodes1], next |-> acc.next]
      ELSE LET app    == Cardinality({k \in Events(nodes1) : nodes1[k].step = step /\ nodes1[k].rule = r})
               eid    == Len(nodes1) + 1
               nodes2 == Append(nodes1, [kind |-> "e", step |-> step, rule |-> r, app |-> app])
               fresh  == Range(prod) \ st.pool
           IN [st |-> [st EXCEPT !.nodes = nodes2,
                                 !.edges = @ \cup {<<IdOf(nodes1, x), eid>> : x \in Range(rkeep)}
                                             \cup {<<eid, IdOf(nodes1, x)>> : x \in Range(pkeep)},
                                 !.delta = IF cfg.dedupDelta THEN @ \cup {dkey} ELSE @,
                                 !.pool  = @ \cup fresh],
               next |-> acc.next \cup fresh]

RECURSIVE IntegrateProds(_, _, _, _, _, _)
IntegrateProds(acc, cfg, step, r, mix, prods) ==
   IF prods = <<>> THEN acc
   ELSE IntegrateProds(IntegrateMix(acc, cfg, step, r, mix, Head(prods)), cfg, step, r, mix, Tail(prods))

(* results : sequence of [r, mix, prods], prods a sequence of product mixtures (sequences of species) *)
RECURSIVE IntegrateFrom(_, _, _, _, _)
IntegrateFrom(acc, cfg, step, results, k) ==
   IF k > Len(results) THEN acc
   ELSE IntegrateFrom(IntegrateProds(acc, cfg, step, results[k].r, results[k].mix, results[k].prods), cfg, step, results, k + 1)
(* result: the state after the step (frontier replaced by the species that entered the pool) *)
Integrate(st, cfg, step, results) ==
   LET a == IntegrateFrom([st |-> st, next |-> {}], cfg, step, results, 1)
   IN [a.st EXCEPT !.frontier = a.next]

(* ---- loop control of build ---------------------------------------------------- *)
(* before step `step` (1-based): does build go on to make tasks? *)
Continue(st, cfg, step) == step <= cfg.repeats /\ st.pool # {} /\ ~(cfg.useFrontier /\ st.frontier = {})

(* ---- what the design promises -------------------------------------------------- *)
AllMixes(P, k) == {Asc(M) : M \in {X \in SUBSET P : Cardinality(X) = k}}
(* every mixture of pool members was offered to every rule that can take it *)
Complete(st, cfg) ==
   \A r \in 1..Len(cfg.arity) :
      (cfg.arity[r] >= 1 /\ cfg.arity[r] <= cfg.maxComp) => \A m \in AllMixes(st.pool, cfg.arity[r]) : <<r, m>> \in st.seen
EventsOf(st) == {k \in DOMAIN st.nodes : st.nodes[k].kind = "e"}
Reactants(st, e) == {st.nodes[u].key : u \in {x \in DOMAIN st.nodes : <<x, e>> \in st.edges}}
Products(st, e)  == {st.nodes[v].key : v \in {x \in DOMAIN st.nodes : <<e, x>> \in st.edges}}
WellFormed(st, cfg) ==
   /\ st.frontier \subseteq st.pool
   /\ st.pool \subseteq SpeciesKeys(st.nodes)
   /\ \A u \in DOMAIN st.nodes, v \in DOMAIN st.nodes :
         (u # v /\ st.nodes[u].kind = "s" /\ st.nodes[v].kind = "s") => st.nodes[u].key # st.nodes[v].key
   /\ \A e \in EventsOf(st) :
         /\ Reactants(st, e) \subseteq st.pool /\ Products(st, e) \subseteq st.pool
         /\ Reactants(st, e) \cap Products(st, e) = {}
         /\ cfg.allowEmpty \/ (Reactants(st, e) # {} /\ Products(st, e) # {})
         /\ Cardinality(Reactants(st, e)) <= cfg.maxComp
   /\ \A ed \in st.edges : (st.nodes[ed[1]].kind = "e") # (st.nodes[ed[2]].kind = "e")        \* bipartite
   /\ \A e \in EventsOf(st) :                                                               \* app indices count up per (step, rule)
         st.nodes[e].app = Cardinality({f \in EventsOf(st) : f < e /\ st.nodes[f].step = st.nodes[e].step /\ st.nodes[f].rule = st.nodes[e].rule})
   /\ \A t \in st.seen : Range(t[2]) \subseteq st.pool /\ Len(t[2]) = cfg.arity[t[1]]

(* ---- ReactionDeltaFlattener: the network as a list of reactions ------------------------------------------- *)
(* fcfg = [skipNoChange, allowEmpty, deduplicate]; one record per event node that survives the filters and is the    *)
(* first with its (reactants, products) pair in node order; sorted by (step, rule, app, id)                          *)
FlatRec(st, e) == [id |-> e, step |-> st.nodes[e].step, rule |-> st.nodes[e].rule, app |-> st.nodes[e].app,
                   r |-> Reactants(st, e) \ Products(st, e), p |-> Products(st, e) \ Reactants(st, e)]
FlatPasses(x, fcfg) == /\ ~(fcfg.skipNoChange /\ x.r = {} /\ x.p = {})
                       /\ (fcfg.allowEmpty \/ (x.r # {} /\ x.p # {}))
FlatKept(st, fcfg) ==
   {e \in EventsOf(st) :
      LET x == FlatRec(st, e)
      IN /\ FlatPasses(x, fcfg)
         /\ ~fcfg.deduplicate \/ \A f \in EventsOf(st) :
               (f < e /\ FlatPasses(FlatRec(st, f), fcfg)) => <<FlatRec(st, f).r, FlatRec(st, f).p>> # <<x.r, x.p>>}
FlatBefore(a, b) ==     \* lexicographic on (step, rule, app, id)
   \/ a.step < b.step
   \/ a.step = b.step /\ a.rule < b.rule
   \/ a.step = b.step /\ a.rule = b.rule /\ a.app < b.app
   \/ a.step = b.step /\ a.rule = b.rule /\ a.app = b.app /\ a.id < b.id
RECURSIVE FlatSort(_)
FlatSort(S) == IF S = {} THEN <<>>
               ELSE LET m == CHOOSE x \in S : \A y \in S \ {x} : FlatBefore(x, y) IN <<m>> \o FlatSort(S \ {m})
FlatList(st, fcfg) == FlatSort({FlatRec(st, e) : e \in FlatKept(st, fcfg)})

RECURSIVE FirstFailFrom(_, _)
FirstFailFrom(cl, k) == IF k > Len(cl) THEN "ok"
                        ELSE IF cl[k][2] THEN FirstFailFrom(cl, k + 1) ELSE cl[k][1]
FirstFail(cl) == FirstFailFrom(cl, 1)
=============================================================================

-------------------------------- MODULE Prune --------------------------------
(***************************************************************************)
(* The symmetry pruning of rule application AS IMPLEMENTED                 *)
(* (SynReactor.mappings, default mode: AutoEst + deduplicate_matches_with_ *)
(* anchor).  It is NOT what the properties ask for (C04, C05, C11 ask that *)
(* pruning never changes the set of distinct reactions); it is the known   *)
(* finding written down precisely, so that the judges can tell "the        *)
(* result set differs from the unpruned one exactly as this algorithm       *)
(* makes it differ" (the known finding) from any other loss of a reaction   *)
(* (a violation).                                                          *)
(*                                                                         *)
(*  - approximate orbits of the pattern: colour refinement (WL-1), start    *)
(*    colour = (degree, node attributes), refined by the multiset of        *)
(*    (neighbour colour, bond order), at most 10 sweeps;                     *)
(*  - anchor = largest connected component of the pattern, ties broken by   *)
(*    the smallest node id (so it depends on the numbering);                 *)
(*  - two matches are duplicates when they agree on every anchor node and,  *)
(*    for every colour class disjoint from the anchor, hit the same SET of  *)
(*    host atoms; the first of each group is kept.                           *)
(* Nodes 1..n are in the order of the pattern's node ids.                   *)
(***************************************************************************)
EXTENDS LGraph

MinOf(S) == CHOOSE x \in S : \A y \in S : x <= y
(* canonical form of a colouring: every node is sent to the least node with its label *)
CanonCol(f, n) == [v \in 1..n |-> MinOf({u \in 1..n : f[u] = f[v]})]
NbrKeys(G, col, v) == {<<col[u], G.adj[v][u]>> : u \in {x \in Nodes(G) : HasEdge(G, v, x)}}
NbrBag(G, col, v) == [k \in NbrKeys(G, col, v) |-> Cardinality({u \in Nodes(G) : HasEdge(G, v, u) /\ <<col[u], G.adj[v][u]>> = k})]
WLRefine(G, col) == CanonCol([v \in Nodes(G) |-> <<col[v], NbrBag(G, col, v)>>], G.n)
RECURSIVE WLIter(_, _, _)
WLIter(G, col, k) == IF k = 0 THEN col
                     ELSE LET c2 == WLRefine(G, col) IN IF c2 = col THEN col ELSE WLIter(G, c2, k - 1)
WLColours(G) == WLIter(G, CanonCol([v \in Nodes(G) |-> <<Degree(G, v), G.lab[v], G.hc[v]>>], G.n), 10)
WLClasses(G) == LET c == WLColours(G) IN {{u \in Nodes(G) : c[u] = c[v]} : v \in Nodes(G)}

AnchorComp(G) ==
   IF G.n = 0 THEN {}
   ELSE LET Cs == Components(G)
            big == {C \in Cs : \A D \in Cs : Cardinality(D) <= Cardinality(C)}
        IN CHOOSE C \in big : \A D \in big : MinOf(C) <= MinOf(D)

(* raw : sequence of matches, raw[k][p] = host atom of pattern node p; the indices of the matches that are kept *)
KeptByPruning(G, raw) ==
   LET A == AnchorComp(G)
       free == {o \in WLClasses(G) : o \cap A = {}}
       sig == [k \in DOMAIN raw |-> <<[o \in free |-> {raw[k][p] : p \in o}], [p \in A |-> raw[k][p]]>>]
   IN {k \in DOMAIN raw : \A j \in DOMAIN raw : j < k => sig[j] # sig[k]}

(* ---- the optional exact mode (SynReactor(automorphism=True): class Automorphism) ------------------------------- *)
(* orbits: true orbits of every component under automorphisms preserving (element, charge) and bond order - the      *)
(* hydrogen counts are NOT looked at (G2 carries those labels only); anchor: none for a connected pattern, else the  *)
(* largest component, ties broken by the order in which networkx meets the components (iter[v] = position of node v  *)
(* in the pattern's node iteration)                                                                                  *)
ExactOrbits(G2) == UNION {CompOrbits(G2, C) : C \in Components(G2)}
ExactAnchor(G2, iter) ==
   IF NComp(G2) <= 1 THEN {}
   ELSE LET Cs == Components(G2)
            big == {C \in Cs : \A D \in Cs : Cardinality(D) <= Cardinality(C)}
            first(C) == MinOf({iter[v] : v \in C})
        IN CHOOSE C \in big : \A D \in big : first(C) <= first(D)
KeptByExactPruning(G2, iter, raw) ==
   LET A == ExactAnchor(G2, iter)
       free == {o \in ExactOrbits(G2) : o \cap A = {}}
       sig == [k \in DOMAIN raw |-> <<[o \in free |-> {raw[k][p] : p \in o}], [p \in A |-> raw[k][p]]>>]
   IN {k \in DOMAIN raw : \A j \in DOMAIN raw : j < k => sig[j] # sig[k]}

(* keys[k] : the distinct reactions obtained at match k; what the pruned application returns according to this model *)
ModelResult(pm) ==
   UNION {Range(pm.keys[k]) : k \in (IF pm.exact THEN KeptByExactPruning(pm.pat2, pm.iter, pm.raw) ELSE KeptByPruning(pm.pat, pm.raw))}
=============================================================================

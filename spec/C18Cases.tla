------------------------------ MODULE C18Cases ------------------------------
(***************************************************************************)
(* C18: network canonical form is a complete invariant; automorphism data  *)
(* are exact.                                                              *)
(* case = [runs |-> << [cfg, view, cg, cgids, naut, orbits, aut_naut,        *)
(*                      aut_orbits, view_plain] >>]                          *)
(* one run per network of a family and per configuration (cfg); networks of *)
(* one family with the same cfg are compared pairwise.                      *)
(*   view[k]   : directed view of network k under the canonicaliser's        *)
(*               selected attributes (kind; role, stoich)                    *)
(*   cg[k], cgids[k] : canonical graph (same projection), its node ids       *)
(*   naut/orbits     : CRNCanonicalizer.summary()                            *)
(*   view_plain, aut_naut, aut_orbits : view under CRNAutomorphism's          *)
(*               selection (kind; adjacency and direction only) and its data *)
(***************************************************************************)
EXTENDS LGraph, Json, IOUtils

Cases == ndJsonDeserialize(IOEnv.CASES)

Blocks(ss) == {Range(ss[k]) : k \in DOMAIN ss}

RunVerdict(r) ==
   LET m == Len(r.view)
       tag == r.cfg
   IN FirstFail(<<
      <<tag \o ":canonical-graph-not-isomorphic-to-its-view",
          \A k \in 1..m : IsIso(r.view[k], r.cg[k])>>,
      <<tag \o ":isomorphic-networks-get-different-canonical-graphs",
          \A a, b \in 1..m : (a < b /\ IsIso(r.view[a], r.view[b])) => (r.cgids[a] = r.cgids[b] /\ SameGraph(r.cg[a], r.cg[b]))>>,
      <<tag \o ":non-isomorphic-networks-get-the-same-canonical-graph",
          \A a, b \in 1..m : (a < b /\ ~IsIso(r.view[a], r.view[b])) => ~(r.cgids[a] = r.cgids[b] /\ SameGraph(r.cg[a], r.cg[b]))>>,
      <<tag \o ":canonicaliser-automorphism-count",
          \A k \in 1..m : r.naut[k] = Cardinality(Autos(r.view[k]))>>,
      <<tag \o ":canonicaliser-orbits",
          \A k \in 1..m : Blocks(r.orbits[k]) = Orbits(r.view[k])>>,
      <<tag \o ":automorphism-count",
          \A k \in 1..m : r.aut_naut[k] = Cardinality(Autos(r.view_plain[k]))>>,
      <<tag \o ":automorphism-orbits",
          \A k \in 1..m : Blocks(r.aut_orbits[k]) = Orbits(r.view_plain[k])>>
   >>)

RECURSIVE RunsFrom(_, _)
RunsFrom(runs, k) ==
   IF k > Len(runs) THEN "ok"
   ELSE LET v == RunVerdict(runs[k])
            rest == RunsFrom(runs, k + 1)
        IN IF v = "ok" THEN rest ELSE IF rest = "ok" THEN v ELSE v \o ";" \o rest

Verdict(c) ==
   IF \E j \in DOMAIN c.runs : \E k \in DOMAIN c.runs[j].view : ~WellFormedD(c.runs[j].view[k]) \/ ~WellFormedD(c.runs[j].cg[k])
   THEN "MACHINERY:malformed-graph" ELSE RunsFrom(c.runs, 1)

VARIABLE i
Init == i = 0
Next == /\ i < Len(Cases)
        /\ i' = i + 1
        /\ PrintT("V|" \o ToString(i + 1) \o "|" \o Verdict(Cases[i + 1]))
=============================================================================

------------------------------ MODULE C18Cases ------------------------------
(***************************************************************************)
(* C18: network canonical form is a complete invariant; automorphism data  *)
(* are exact.                                                              *)
(* case = [runs |-> << [cfg, view, cg, cgids, naut, orbits, aut_naut,        *)
(*                      aut_orbits, view_plain] >>]                          *)
(* one run per network of a family and per configuration (cfg); networks of *)
(* one family with the same cfg are compared pairwise.                      *)
(*   view[k]   : directed view of network k under the canonicaliser's        *)
(*               selected attributes (kind; role, stoich)                    *)
(*   cg[k], cgids[k] : canonical graph (same projection), its node ids       *)
(*   naut/orbits     : CRNCanonicalizer.summary()                            *)
(*   view_plain, aut_naut, aut_orbits : view under CRNAutomorphism's          *)
(*               selection (kind; adjacency and direction only) and its data *)
(***************************************************************************)
EXTENDS LGraph, Json, IOUtils

Cases == ndJsonDeserialize(IOEnv.CASES)

Blocks(ss) == {Range(ss[k]) : k \in DOMAIN ss}

(* ---- the views, defined from the abstract network (not taken from the code) ----
   net = [sp |-> <<species>>, rx |-> <<[id, rule, l, r]>>]
   node labels: species 1 (101 with a self-loop in the species view), reaction 2
   arc codes : reactant arc 10 (+ coefficient if stoichiometry is selected),
               product arc 50 (+ coefficient), species-graph arc 1, plain arc 1 *)
Coef(side, x) == IF x \in DOMAIN side THEN side[x] ELSE 0
BipView(N, st, plain) ==
   LET ns == Len(N.sp)
       nr == Len(N.rx)
   IN [n |-> ns + nr,
       lab |-> [k \in 1..(ns + nr) |-> IF k <= ns THEN 1 ELSE 2],
       hc |-> [k \in 1..(ns + nr) |-> 0],
       adj |-> [u \in 1..(ns + nr) |-> [v \in 1..(ns + nr) |->
          IF u <= ns /\ v > ns
          THEN (LET c == Coef(N.rx[v - ns].l, N.sp[u]) IN
                IF c = 0 THEN 0 ELSE IF plain THEN 1 ELSE 10 + (IF st THEN c ELSE 0))
          ELSE IF u > ns /\ v <= ns
          THEN (LET c == Coef(N.rx[u - ns].r, N.sp[v]) IN
                IF c = 0 THEN 0 ELSE IF plain THEN 1 ELSE 50 + (IF st THEN c ELSE 0))
          ELSE 0]]]
SpView(N) ==
   LET ns == Len(N.sp)
       Arc(a, b) == \E j \in DOMAIN N.rx : N.sp[a] \in DOMAIN N.rx[j].l /\ N.sp[b] \in DOMAIN N.rx[j].r
   IN [n |-> ns,
       lab |-> [k \in 1..ns |-> IF Arc(k, k) THEN 101 ELSE 1],
       hc |-> [k \in 1..ns |-> 0],
       adj |-> [u \in 1..ns |-> [v \in 1..ns |-> IF u # v /\ Arc(u, v) THEN 1 ELSE 0]]]
ViewOf(N, r, plain) == IF r.bipartite THEN BipView(N, r.stoich, plain) ELSE SpView(N)

RunVerdict(r) ==
   LET m == Len(r.nets)
       tag == r.cfg
       view == [k \in 1..m |-> ViewOf(r.nets[k], r, FALSE)]
       vplain == [k \in 1..m |-> ViewOf(r.nets[k], r, TRUE)]
   IN FirstFail(<<
      <<tag \o ":view-used-by-the-code-is-not-the-view-of-the-network",
          \A k \in 1..m : IsIso(view[k], r.view[k]) /\ IsIso(vplain[k], r.view_plain[k])>>,
      <<tag \o ":canonical-graph-not-isomorphic-to-its-view",
          \A k \in 1..m : IsIso(view[k], r.cg[k])>>,
      <<tag \o ":isomorphic-networks-get-different-canonical-graphs",
          \A a, b \in 1..m : (a < b /\ IsIso(view[a], view[b])) => (r.cgids[a] = r.cgids[b] /\ SameGraph(r.cg[a], r.cg[b]))>>,
      <<tag \o ":non-isomorphic-networks-get-the-same-canonical-graph",
          \A a, b \in 1..m : (a < b /\ ~IsIso(view[a], view[b])) => ~(r.cgids[a] = r.cgids[b] /\ SameGraph(r.cg[a], r.cg[b]))>>,
      <<tag \o ":canonicaliser-automorphism-count",
          \A k \in 1..m : r.naut[k] = Cardinality(Autos(view[k]))>>,
      <<tag \o ":canonicaliser-orbits",
          \A k \in 1..m : Blocks(r.orbits[k]) = {{r.align[k][x] : x \in o} : o \in Orbits(view[k])}>>,
      <<tag \o ":automorphism-count",
          \A k \in 1..m : r.aut_naut[k] = Cardinality(Autos(vplain[k]))>>,
      <<tag \o ":automorphism-orbits",
          \A k \in 1..m : Blocks(r.aut_orbits[k]) = {{r.align_plain[k][x] : x \in o} : o \in Orbits(vplain[k])}>>,
      (* the colour-refinement canonicaliser documents itself as approximate: it is only held to
         "canonical graph isomorphic to the view" and "its cells never split a true orbit" *)
      <<tag \o ":wl-canonical-graph-not-isomorphic-to-its-view",
          \A k \in 1..m : IsIso(view[k], r.wl_cg[k])>>,
      <<tag \o ":wl-cells-split-a-true-orbit",
          \A k \in 1..m : Coarsens(Blocks(r.wl_orbits[k]), {{r.align[k][x] : x \in o} : o \in Orbits(view[k])})>>
   >>)

RECURSIVE RunsFrom(_, _)
RunsFrom(runs, k) ==
   IF k > Len(runs) THEN "ok"
   ELSE LET v == RunVerdict(runs[k])
            rest == RunsFrom(runs, k + 1)
        IN IF v = "ok" THEN rest ELSE IF rest = "ok" THEN v ELSE v \o ";" \o rest

Verdict(c) ==
   IF \E j \in DOMAIN c.runs : \E k \in DOMAIN c.runs[j].view : ~WellFormedD(c.runs[j].view[k]) \/ ~WellFormedD(c.runs[j].cg[k])
   THEN "MACHINERY:malformed-graph" ELSE RunsFrom(c.runs, 1)

VARIABLE i
Init == i = 0
Next == /\ i < Len(Cases)
        /\ i' = i + 1
        /\ PrintT("V|" \o ToString(i + 1) \o "|" \o Verdict(Cases[i + 1]))
=============================================================================

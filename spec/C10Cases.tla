------------------------------ MODULE C10Cases ------------------------------
(***************************************************************************)
(* C10: changing representation (SMILES, graph, explicit/implicit H, GML)  *)
(* loses nothing.                                                          *)
(* kind "mol": A - atoms/bonds read from RDKit, B - smiles_to_graph,        *)
(*             C - RDKit reading of graph_to_smi(B) (same index list),      *)
(*             unm_in / unm_out - canonical strings without atom maps       *)
(* kind "hyd": B0 - graph, E - h_to_explicit(B0), I2 - h_to_implicit(E),     *)
(*             all on the index list of E (present flags)                   *)
(* kind "gml": G, H - reaction sides read from RDKit (shared index list),    *)
(*             routes |-> << [name, core, rule] >> , back - gml_to_its       *)
(*             rule = [n, lab, hc, adj] with lab[v] = <<elL, chL, elR, chR>>  *)
(*             and adj = 10 * orderL + orderR (half units)                    *)
(***************************************************************************)
EXTENDS ITS, Json, IOUtils
LG == INSTANCE LGraph

Cases == ndJsonDeserialize(IOEnv.CASES)

(* ---- the rule of a reaction, defined from its ITS ---- *)
Renumber(S) == [k \in 1..Cardinality(S) |-> CHOOSE v \in S : Cardinality({u \in S : u < v}) = k - 1]
RuleOn(I, S, edgeOK(_, _)) ==
   LET idx == Renumber(S)
       m == Cardinality(S)
   IN [n |-> m,
       lab |-> [k \in 1..m |-> <<I.tG[idx[k]][1], I.tG[idx[k]][4], I.tH[idx[k]][1], I.tH[idx[k]][4]>>],
       hc |-> [k \in 1..m |-> 0],
       adj |-> [a \in 1..m |-> [b \in 1..m |->
                  IF a # b /\ edgeOK(idx[a], idx[b]) THEN 10 * I.oG[idx[a]][idx[b]] + I.oH[idx[a]][idx[b]] ELSE 0]]]
CoreRule(I) == LET ok(u, v) == RCEdge(I, u, v) IN RuleOn(I, RCNodes(I), ok)
FullRule(I) ==
   [n |-> I.n,
    lab |-> [k \in 1..I.n |-> <<I.tG[k][1], I.tG[k][4], I.tH[k][1], I.tH[k][4]>>],
    hc |-> [k \in 1..I.n |-> 0],
    adj |-> [a \in 1..I.n |-> [b \in 1..I.n |-> IF a # b THEN 10 * I.oG[a][b] + I.oH[a][b] ELSE 0]]]

HasExplicitH(M) == \E v \in 1..M.n : M.present[v] = 1 /\ M.t[v][1] = HCODE

(* a route that keeps the atom-map numbers as node ids must give exactly the expected rule (both list
   their nodes by increasing atom map); a re-indexed route is compared up to isomorphism when the rule is
   small, otherwise by its label and bond multisets *)
AdjCodes(A) == {A.adj[u][v] : u \in 1..A.n, v \in 1..A.n} \ {0}
CountCode(A, c) == Cardinality({e \in (1..A.n) \X (1..A.n) : A.adj[e[1]][e[2]] = c})
BagEq(A, B) ==
   /\ A.n = B.n
   /\ \A l \in {A.lab[u] : u \in 1..A.n} : Cardinality({u \in 1..A.n : A.lab[u] = l}) = Cardinality({u \in 1..B.n : B.lab[u] = l})
   /\ \A c \in AdjCodes(A) : CountCode(A, c) = CountCode(B, c)
SameRule(R, X, aligned) ==
   IF aligned THEN LG!SameGraph(R, X)
   ELSE IF X.n <= 14 THEN R.n = X.n /\ LG!IsIso(R, X)
   ELSE BagEq(R, X) /\ BagEq(X, R)

RECURSIVE RouteClauses(_, _, _, _)
RouteClauses(cr, fr, routes, k) ==
   IF k > Len(routes) THEN <<>>
   ELSE << <<"gml-rule-not-the-rule-of-the-reaction:" \o routes[k].name,
               SameRule(routes[k].rule, IF routes[k].core THEN cr ELSE fr, routes[k].aligned)>> >>
        \o RouteClauses(cr, fr, routes, k + 1)

Verdict(c) ==
   CASE c.kind = "mol" ->
        AllFails(<<
           <<"smiles_to_graph-differs-from-the-molecule", SameMol(c.B, c.A) /\ c.B.present = c.A.present>>,
           <<"graph_to_smi-fails", c.out_ok>>,
           <<"graph_to_smi-changes-the-molecule", c.out_ok => (SameMol(c.C, c.A) /\ c.C.present = c.A.present)>>,
           <<"round-trip-changes-the-unmapped-smiles", c.out_ok => c.unm_in = c.unm_out>>
        >>)
     [] c.kind = "hyd" ->
        IF HasExplicitH(c.B0) THEN "skip:graph-already-has-explicit-hydrogens"
        ELSE AllFails(<<
           <<"explicit-form-is-a-different-molecule", FoldEq(c.E, c.B0)>>,
           <<"explicit-form-still-has-implicit-hydrogens", c.partial \/ \A v \in Kept(c.E) : c.E.t[v][1] # HCODE => c.E.t[v][3] = 0>>,
           <<"explicit-form-changes-total-hydrogen-count", TotalH(c.E) = TotalH(c.B0)>>,
           <<"implicit-again-does-not-restore-the-graph", SameMol(c.I2, c.B0) /\ c.I2.present = c.B0.present>>,
           <<"implicit-again-changes-total-hydrogen-count", TotalH(c.I2) = TotalH(c.B0)>>
        >>)
     [] c.kind = "gml" ->
        LET I == MkITS(c.G, c.H)
            cr == CoreRule(I)          \* evaluated once per case
            fr == FullRule(I)
        IN
        IF cr.n = 0 THEN "skip:reaction-without-changed-bond"
        ELSE AllFails(RouteClauses(cr, fr, c.routes, 1) \o
                      << <<"its-gml-its-round-trip-changes-the-rule", SameRule(c.back, cr, FALSE)>>,
                         <<"its-gml-its-round-trip-changes-a-rule-with-a-wildcard-atom", SameRule(c.back_w, c.want_w, FALSE)>> >>)

VARIABLE i
Init == i = 0
Next == /\ i < Len(Cases)
        /\ i' = i + 1
        /\ PrintT("V|" \o ToString(i + 1) \o "|" \o Verdict(Cases[i + 1]))
=============================================================================

------------------------------ MODULE GraphGen ------------------------------
(***************************************************************************)
(* Value generator (mode E): every labelled graph with at most MaxN nodes, *)
(* node labels 1..NLab, hydrogen counts 0..MaxHc and edge codes 1..MaxOrd   *)
(* is reachable exactly once (nodes are added in order, each with its      *)
(* edges to the earlier nodes).  `out` carries the graph as JSON; with      *)
(* CanonOnly only the lexicographically least numbering of each            *)
(* isomorphism class is exported (the others get out = "").                *)
(***************************************************************************)
EXTENDS LGraph, Json

CONSTANTS MaxN, NLab, MaxHc, MaxOrd, CanonOnly, MinN

VARIABLES g, out

Empty == [n |-> 0, lab |-> <<>>, hc |-> <<>>, adj |-> <<>>]

AddNode(G, l, h, back) ==
   [n   |-> G.n + 1,
    lab |-> Append(G.lab, l),
    hc  |-> Append(G.hc, h),
    adj |-> [u \in 1..(G.n + 1) |-> [v \in 1..(G.n + 1) |->
               IF u <= G.n /\ v <= G.n THEN G.adj[u][v]
               ELSE IF u = v THEN 0
               ELSE IF u = G.n + 1 THEN back[v] ELSE back[u]]]]

Perms(n) == {f \in [1..n -> 1..n] : \A a, b \in 1..n : a # b => f[a] # f[b]}

Key(G) == G.lab \o G.hc \o
          [k \in 1..(G.n * G.n) |-> G.adj[((k - 1) \div G.n) + 1][((k - 1) % G.n) + 1]]
RECURSIVE LeqFrom(_, _, _)
LeqFrom(a, b, k) == IF k > Len(a) THEN TRUE
                    ELSE IF a[k] < b[k] THEN TRUE
                    ELSE IF a[k] > b[k] THEN FALSE ELSE LeqFrom(a, b, k + 1)
IsCanonical(G) == \A pi \in Perms(G.n) : LeqFrom(Key(G), Key(Relabel(G, pi)), 1)

Export(G) == IF G.n < MinN \/ (CanonOnly /\ ~IsCanonical(G)) THEN "" ELSE ToJson(G)

Init == g = Empty /\ out = ""
Next == /\ g.n < MaxN
        /\ \E l \in 1..NLab, h \in 0..MaxHc, back \in [1..g.n -> 0..MaxOrd] :
              /\ g' = AddNode(g, l, h, back)
              /\ out' = Export(g')
=============================================================================

INIT Init
NEXT Next
INVARIANT NonNegative
INVARIANT StateEquation
INVARIANT AgreeLemma
CHECK_DEADLOCK FALSE

------------------------------ MODULE C19Cases ------------------------------
(***************************************************************************)
(* C19: judges outputs of DeficiencyAnalyzer(...).compute_crn_deficiency() *)
(* recorded from the real code against the definitions in CRN.tla.         *)
(* case = [net |-> [sp, rx], out |-> [n_species, n_reactions, n_complexes, *)
(*         n_linkage, rank, deficiency, wr, ldef]]                         *)
(***************************************************************************)
EXTENDS CRN, Json, IOUtils

Cases == ndJsonDeserialize(IOEnv.CASES)

Count(seq, v) == Cardinality({k \in DOMAIN seq : seq[k] = v})

Verdict(c) ==
   LET N  == c.net
       o  == c.out
       LC == LinkageClasses(N)
       d  == Deficiency(N)
   IN FirstFail(<<
      <<"input-species-are-the-occurring-ones", SpSet(N) = Occurring(N) /\ NoDup(N.sp)>>,
      <<"n_species", o.n_species = NSp(N)>>,
      <<"n_reactions", o.n_reactions = NRx(N)>>,
      <<"n_complexes", o.n_complexes = Cardinality(Complexes(N))>>,
      <<"n_linkage_classes", o.n_linkage = Cardinality(LC)>>,
      <<"stoich_rank", o.rank = RankS(N)>>,
      <<"deficiency-formula", o.deficiency = d>>,
      <<"deficiency-nonnegative", o.deficiency >= 0 /\ d >= 0>>,
      <<"weakly_reversible", o.wr = WeaklyReversible(N)>>,
      <<"linkage-deficiencies-count", Len(o.ldef) = Cardinality(LC)>>,
      <<"linkage-deficiencies-sum", SumSeq(o.ldef) <= o.deficiency>>,
      <<"linkage-deficiencies-definition",
          \A v \in Range(o.ldef) \cup {LinkageDeficiency(N, L) : L \in LC} :
              Count(o.ldef, v) = Cardinality({L \in LC : LinkageDeficiency(N, L) = v})>>
   >>)

VARIABLE i
Init == i = 0
Next == /\ i < Len(Cases)
        /\ i' = i + 1
        /\ PrintT("V|" \o ToString(i + 1) \o "|" \o Verdict(Cases[i + 1]))
=============================================================================

------------------------------ MODULE C13Cases ------------------------------
(***************************************************************************)
(* C13: clustering partitions graphs exactly into isomorphism classes.     *)
(* case = [runs |-> << [how, g |-> <<graphs>>, cls |-> <<class ids>>] >>]   *)
(* For incremental runs g/cls list the initial library first, then the     *)
(* classified items; the library is consistent by construction.            *)
(* Graph labels: element + charge (lab), bond order (adj); hc is unused.   *)
(***************************************************************************)
EXTENDS LGraph, Json, IOUtils

Cases == ndJsonDeserialize(IOEnv.CASES)

RunVerdict(r) ==
   IF \E k \in DOMAIN r.cls : r.cls[k] < 0 THEN r.how \o ":item-without-class"
   ELSE IF Len(r.cls) # Len(r.g) THEN r.how \o ":missing-items"
   ELSE IF \E a, b \in DOMAIN r.g : a < b /\ r.cls[a] = r.cls[b] /\ ~IsIso(r.g[a], r.g[b])
        THEN r.how \o ":non-isomorphic-items-share-a-class"
   ELSE IF \E a, b \in DOMAIN r.g : a < b /\ r.cls[a] # r.cls[b] /\ IsIso(r.g[a], r.g[b])
        THEN r.how \o ":isomorphic-items-in-different-classes"
   ELSE "ok"

RECURSIVE RunsFrom(_, _)
RunsFrom(runs, k) ==
   IF k > Len(runs) THEN "ok"
   ELSE LET v == RunVerdict(runs[k])
            rest == RunsFrom(runs, k + 1)
        IN IF v = "ok" THEN rest ELSE IF rest = "ok" THEN v ELSE v \o ";" \o rest
Verdict(c) == RunsFrom(c.runs, 1)

VARIABLE i
Init == i = 0
Next == /\ i < Len(Cases)
        /\ i' = i + 1
        /\ PrintT("V|" \o ToString(i + 1) \o "|" \o Verdict(Cases[i + 1]))
=============================================================================

SPECIFICATION Spec
CHECK_DEADLOCK FALSE
VIEW View

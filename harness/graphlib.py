"""Abstract labelled graphs <-> networkx objects (many object histories of one abstract value).

Abstract graph (what TLA+ module LGraph sees):
    {"n": N, "lab": [code...], "hc": [int...], "adj": [[code...]...]}   nodes 1..N
"""
from __future__ import annotations

import copy
import random
from typing import Any, Dict, Iterable, List, Optional, Sequence, Tuple

import networkx as nx

# decoding of generator label codes into chemistry-like attribute values
ELEMENTS = {1: ("C", 0), 2: ("O", 0), 3: ("C", 1), 4: ("N", 0), 5: ("O", -1), 6: ("N", 1)}
ORDERS = {1: 1.0, 2: 2.0, 3: 1.5, 4: 3.0}


def realise(g: Dict[str, Any], rng: Optional[random.Random] = None, *, ids: Optional[List[Any]] = None,
            shuffle: bool = True, extra_node_attrs: Optional[Dict[str, Any]] = None, with_hcount: bool = True,
            atom_map: bool = False) -> Tuple[nx.Graph, List[Any]]:
    """Build a networkx graph for abstract graph g.  Returns (G, ids) with ids[k-1] = node id of abstract node k.
    Node ids are a random injection into a sparse integer range, node and edge insertion orders are shuffled,
    edge orientation (u, v) / (v, u) is random."""
    n = g["n"]
    rng = rng or random.Random(0)
    if ids is None:
        ids = rng.sample(range(1, 3 * n + 8), n) if shuffle else list(range(1, n + 1))
    G = nx.Graph()
    order = list(range(n))
    if shuffle:
        rng.shuffle(order)
    for k in order:
        el, ch = ELEMENTS[g["lab"][k]]
        a = {"element": el, "charge": ch, "aromatic": False}
        if with_hcount:
            a["hcount"] = g["hc"][k]
        if atom_map:
            a["atom_map"] = ids[k]
        if extra_node_attrs:
            a.update(extra_node_attrs)
        G.add_node(ids[k], **a)
    es = [(u, v) for u in range(n) for v in range(u + 1, n) if g["adj"][u][v]]
    if shuffle:
        rng.shuffle(es)
    for u, v in es:
        a, b = (ids[u], ids[v]) if (not shuffle or rng.random() < 0.5) else (ids[v], ids[u])
        G.add_edge(a, b, order=ORDERS[g["adj"][u][v]])
    return G, ids


class Coder:
    """Assigns small integer codes to attribute tuples, shared by all graphs of one case."""

    def __init__(self):
        self.node: Dict[Any, int] = {}
        self.edge: Dict[Any, int] = {}

    def ncode(self, t) -> int:
        return self.node.setdefault(t, len(self.node) + 1)

    def ecode(self, t) -> int:
        return self.edge.setdefault(t, len(self.edge) + 1)


def _freeze(v):
    if isinstance(v, (list, tuple)):
        return tuple(_freeze(x) for x in v)
    if isinstance(v, dict):
        return tuple(sorted((k, _freeze(x)) for k, x in v.items()))
    if isinstance(v, set):
        return tuple(sorted(_freeze(x) for x in v))
    return v


def project(G: nx.Graph, node_attrs: Sequence[str], edge_attrs: Sequence[str], coder: Coder,
            ids: Optional[List[Any]] = None, hcount: bool = True) -> Tuple[Dict[str, Any], List[Any]]:
    """networkx graph -> abstract graph under the given attribute selection.
    ids fixes the node order (default: insertion order)."""
    if ids is None:
        ids = list(G.nodes())
    idx = {v: k for k, v in enumerate(ids)}
    n = len(ids)
    lab = [coder.ncode(tuple(_freeze(G.nodes[v].get(a)) for a in node_attrs)) for v in ids]
    hc = [int(G.nodes[v].get("hcount", 0) or 0) if hcount else 0 for v in ids]
    adj = [[0] * n for _ in range(n)]
    for u, v, d in G.edges(data=True):
        c = coder.ecode(tuple(_freeze(d.get(a)) for a in edge_attrs))
        adj[idx[u]][idx[v]] = c
        adj[idx[v]][idx[u]] = c
    return {"n": n, "lab": lab, "hc": hc, "adj": adj}, ids


def map_to_seq(m: Dict[Any, Any], pids: List[Any], hids: List[Any]) -> List[int]:
    """{pattern id: host id} -> [host index (1-based) of pattern node k], 0 where missing/unknown."""
    hidx = {v: k + 1 for k, v in enumerate(hids)}
    return [hidx.get(m.get(p), 0) if p in m else 0 for p in pids]


def snapshot(G: nx.Graph):
    return (sorted((repr(n), sorted((k, repr(v)) for k, v in d.items())) for n, d in G.nodes(data=True)),
            sorted((tuple(sorted((repr(u), repr(v)))), sorted((k, repr(x)) for k, x in d.items())) for u, v, d in G.edges(data=True)),
            [repr(n) for n in G.nodes()])


def random_graph(rng: random.Random, n: int, *, nlab: int = 3, maxhc: int = 1, maxord: int = 2, p: float = 0.35,
                 connected: bool = False) -> Dict[str, Any]:
    lab = [rng.randint(1, nlab) for _ in range(n)]
    hc = [rng.randint(0, maxhc) for _ in range(n)]
    adj = [[0] * n for _ in range(n)]
    if connected:
        for v in range(1, n):
            u = rng.randrange(v)
            adj[u][v] = adj[v][u] = rng.randint(1, maxord)
    for u in range(n):
        for v in range(u + 1, n):
            if not adj[u][v] and rng.random() < p:
                adj[u][v] = adj[v][u] = rng.randint(1, maxord)
    return {"n": n, "lab": lab, "hc": hc, "adj": adj}


def induced(g: Dict[str, Any], nodes: List[int]) -> Dict[str, Any]:
    return {"n": len(nodes), "lab": [g["lab"][v] for v in nodes], "hc": [g["hc"][v] for v in nodes],
            "adj": [[g["adj"][u][v] for v in nodes] for u in nodes]}


def permuted(g: Dict[str, Any], rng: random.Random) -> Dict[str, Any]:
    p = list(range(g["n"]))
    rng.shuffle(p)
    return induced(g, p)


def disjoint_union(a: Dict[str, Any], b: Dict[str, Any]) -> Dict[str, Any]:
    n = a["n"] + b["n"]
    adj = [[0] * n for _ in range(n)]
    for u in range(a["n"]):
        for v in range(a["n"]):
            adj[u][v] = a["adj"][u][v]
    for u in range(b["n"]):
        for v in range(b["n"]):
            adj[a["n"] + u][a["n"] + v] = b["adj"][u][v]
    return {"n": n, "lab": a["lab"] + b["lab"], "hc": a["hc"] + b["hc"], "adj": adj}

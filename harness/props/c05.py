"""C05 - rule application depends on the chemistry only, not on how inputs are written."""
from __future__ import annotations

import random
from typing import Any, Dict, List

from harness import chem, core, reactlib


def keys(smarts):
    out = []
    for s in smarts:
        x, y = s.split(">>")
        k = chem.unmapped(x) + ">>" + chem.unmapped(y)
        if k not in out:
            out.append(k)
    return sorted(out)


def skel_keys(smarts):
    out = []
    for s in smarts:
        x, y = s.split(">>")
        k = chem.skeleton(x) + ">>" + chem.skeleton(y)
        if k not in out:
            out.append(k)
    return sorted(out)


def variant_case(inp):
    from synkit.IO.chem_converter import rsmi_to_its
    from synkit.Graph.ITS.its_decompose import get_rc
    rng = random.Random(inp["seed"])
    vs = []
    base_t, base_s = inp["template"], inp["substrate"]
    ways = [("original", base_t, base_s)]
    for k in range(inp["nvar"]):
        t2, _ = chem.renumber_aam(base_t, rng)
        if rng.random() < 0.5:
            t2 = chem.reroot(t2, rng)
        s2 = chem.reroot_side(base_s, rng)
        ways.append(("template-renumbered+substrate-rewritten", t2, s2))
    ways.append(("repeat", base_t, base_s))
    mode = None
    for how, t, s in ways:
        its = rsmi_to_its(t)
        rc = get_rc(its)
        tpl = rc if inp["centre"] else its
        mode = mode or reactlib.rule_mode(rc)
        rec = {"how": how}
        for st in ("all", "comp", "bt"):
            try:
                R = reactlib.make_reactor(s, tpl, invert=inp["invert"], strategy=st, mode=mode, automorphism=bool(inp.get("exact")))
                rec[st] = keys(R.smarts_list)
                rec[st + "_sk"] = skel_keys(R.smarts_list)
                R2, _ = reactlib.raw_reactor(R, s, tpl, invert=inp["invert"], strategy=st, mode=mode)
                rec["raw_" + st] = keys(R2.smarts_list)
                rec["raw_" + st + "_sk"] = skel_keys(R2.smarts_list)
                rec["model_" + st] = {}
                if set(rec[st]) != set(rec["raw_" + st]):
                    # diagnosis: is the difference exactly what the pruning algorithm as implemented (Prune.tla) produces?
                    pm = reactlib.prune_model(R, s, tpl, invert=inp["invert"], strategy=st, mode=mode, keyfn=keys)
                    rec["model_" + st] = pm or {}
            except Exception as e:
                return {"_skip": "application-raised:" + type(e).__name__}
        vs.append(rec)
    if not any(v["all"] or v["raw_all"] for v in vs):
        return {"_skip": "no-result"}
    return {"claim": inp.get("claim", "C05"), "v": vs}


class S(core.Stage):
    module = "C05Cases"
    shard_size = 400
    exec_time_limit = 45      # a pattern with a large symmetry group makes the exact analysis / the many writings slow: counted as skipped

    def __init__(self, name, inputs):
        self.name, self._inputs = name, inputs
        self.nontrivial_rule = "pair with >= 2 distinct reactions"

    def inputs(self, ctx):
        return self._inputs

    def execute(self, inp):
        return variant_case(inp)

    def nontrivial(self, c):
        return len(c["v"][0]["raw_all"]) >= 2

    def tags(self, c):
        t = []
        if any(len(v["all"]) < len(v["raw_all"]) for v in c["v"]):
            t.append("pruning-removed-a-distinct-reaction")
        if any(set(v["comp"]) != set(v["all"]) for v in c["v"]):
            t.append("comp-differs-from-all")
        return t


def make_inputs(rng, claim, n_text_var, n_corpus, n_foreign):
    out = []
    for t in reactlib.textbook():
        r, p = t["rsmi"].split(">>")
        subs = list(t["substrates"]) + [reactlib.unmapped_side(r)]
        for sub in subs:
            for centre in (True, False):
                out.append({"template": t["rsmi"], "substrate": sub, "invert": False, "centre": centre, "nvar": n_text_var,
                            "seed": rng.randrange(10 ** 9), "claim": claim})
        out.append({"template": t["rsmi"], "substrate": reactlib.unmapped_side(p), "invert": True, "centre": True, "nvar": n_text_var,
                    "seed": rng.randrange(10 ** 9), "claim": claim})
    tpls = [t for t in reactlib.templates() if t["natoms"] <= 45]
    for t in rng.sample(tpls, min(n_corpus, len(tpls))):
        r, p = t["rsmi"].split(">>")
        inv = rng.random() < 0.4
        out.append({"template": t["rsmi"], "substrate": reactlib.unmapped_side(p if inv else r), "invert": inv, "centre": True,
                    "nvar": 2, "seed": rng.randrange(10 ** 9), "claim": claim})
    for _ in range(n_foreign):
        t, s = rng.choice(tpls), rng.choice(tpls)
        r, p = s["rsmi"].split(">>")
        out.append({"template": t["rsmi"], "substrate": reactlib.unmapped_side(r), "invert": False, "centre": True,
                    "nvar": 2, "seed": rng.randrange(10 ** 9), "claim": claim})
    return out


def run(ctx: core.Ctx) -> None:
    ctx.assumptions += ["TLC 1.8 + Json module trusted", "distinct reactions are identified by RDKit canonical SMILES of both sides without atom maps and stereo",
                        "'applying the rule at every match' is realised by pre-seeding SynReactor's lazy match cache with the raw output of the subgraph search"]
    q, rng = ctx.quick, ctx.rng
    inputs = make_inputs(rng, "C05", 3 if q else 8, 60 if q else 300, 300 if q else 6000)
    core.run_stage(ctx, S("written-in-several-ways", inputs))
    # the same with the optional exact pruning (SynReactor(automorphism=True)): textbook templates and a sample of the others
    text = [i for i in inputs if i["nvar"] != 2]
    rest = [i for i in inputs if i["nvar"] == 2]
    exact = [dict(i, exact=True, nvar=2 if q else 4) for i in text] + [dict(i, exact=True) for i in rng.sample(rest, min(len(rest), 60 if q else 1500))]
    core.run_stage(ctx, S("written-in-several-ways-exact-pruning", exact))


def replay(ctx, data):
    core.run_stage(ctx, S(data["stage"], [data["input"]]))

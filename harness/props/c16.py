"""C16 - network views (bipartite, reaction strings, species graph) round-trip exactly."""
from __future__ import annotations

import random
from typing import Any, Dict, List

from harness import core, crnlib


def enc_mol(v) -> str:
    """molecule labels are arbitrary objects (SMILES, indices ...): typed encoding, so that 0, '' and 'absent' stay apart"""
    return ("i:%d" % v) if isinstance(v, int) and not isinstance(v, bool) else "s:" + str(v)


def dec_mol(e: str):
    return int(e[2:]) if e.startswith("i:") else e[2:]


def proj_h(H) -> Dict[str, Any]:
    return {"rx": {str(k): {"rule": e.rule, "l": {str(a): int(b) for a, b in e.reactants.data.items()},
                            "r": {str(a): int(b) for a, b in e.products.data.items()}} for k, e in H.edges.items()},
            "species": sorted(H.species),
            "mol": {str(k): enc_mol(v) for k, v in H.species_to_mol.items()}}


def build(net):
    H = crnlib.build(net)
    for s, m in net.get("mol", {}).items():
        H.assign_mol(s, dec_mol(m))
    return H


def bip_case(inp):
    from synkit.CRN.Hypergraph.conversion import hypergraph_to_bipartite, bipartite_to_hypergraph
    net, fl = inp["net"], inp["flags"]
    H = build(net)
    before = proj_h(H)
    kw = dict(integer_ids=fl["integer_ids"], include_edge_id_attr=fl["edge_id_attr"], include_mol=fl["mol"],
              include_stoich=True, include_role=True,
              # the abstract networks have no isolated species, so this flag must not change anything
              include_isolated_species=bool(fl.get("isolated", True)))
    if fl.get("prefix") == "none" and not fl["integer_ids"]:
        kw.update(species_prefix=None, reaction_prefix=None)
    elif fl.get("prefix") == "custom":
        kw.update(species_prefix="sp/", reaction_prefix="rx/")
    G = hypergraph_to_bipartite(H, **kw)
    nodes = []
    for n, d in G.nodes(data=True):
        nodes.append({"id": repr(n), "iid": n if isinstance(n, int) and not isinstance(n, bool) else 0,
                      "kind": str(d.get("kind", "")), "label": str(d.get("label", "")),
                      "eid": str(d.get("edge_id", "")), "mol": enc_mol(d["mol"]) if "mol" in d else ""})
    arcs = [{"u": repr(u), "v": repr(v), "stoich": int(d.get("stoich", -1)), "role": str(d.get("role", ""))}
            for u, v, d in G.edges(data=True)]
    ikw = {}
    if fl.get("prefix") == "custom":
        ikw.update(species_prefix="sp/", reaction_prefix="rx/")
    B = bipartite_to_hypergraph(G, **ikw)
    if proj_h(H) != before:
        raise AssertionError("export mutated the network")
    return {"kind": "bip", "net": net, "flags": {k: fl[k] for k in ("integer_ids", "edge_id_attr", "mol")},
            "G": {"nodes": nodes, "arcs": arcs}, "back": proj_h(B)}


def str_case(inp):
    from synkit.CRN.Hypergraph.conversion import hypergraph_to_rxn_strings, rxns_to_hypergraph
    net, fl = inp["net"], inp["flags"]
    H = build(net)
    lines = hypergraph_to_rxn_strings(H, include_rule_suffix=True, include_edge_id=fl["edge_id"], sort=fl["sort"])
    B = rxns_to_hypergraph(lines)
    return {"kind": "str", "net": net, "nlines": len(lines), "back": proj_h(B)}


def sg_case(inp):
    from synkit.CRN.Hypergraph.conversion import hypergraph_to_species_graph, species_graph_to_hypergraph
    net, fl = inp["net"], inp["flags"]
    if not all(e["l"] and e["r"] for e in net["rx"]):
        return {"_skip": "reaction-without-reactants-or-products"}
    H = build(net)
    G = hypergraph_to_species_graph(H, include_mol=fl["mol"])
    B = species_graph_to_hypergraph(G)
    return {"kind": "sg", "net": net, "flags": {"mol": fl["mol"]}, "back": proj_h(B)}


class S(core.Stage):
    module = "C16Cases"
    shard_size = 2000

    def __init__(self, name, fn, inputs):
        self.name, self.fn, self._inputs = name, fn, inputs
        self.nontrivial_rule = "network with >= 2 reactions"

    def inputs(self, ctx):
        return self._inputs

    def execute(self, inp):
        return self.fn(inp)

    def nontrivial(self, c):
        return len(c["net"]["rx"]) >= 2

    def tags(self, c):
        n = c["net"]
        t = []
        if any(set(e["l"]) & set(e["r"]) for e in n["rx"]):
            t.append("catalyst")
        if any(not e["l"] or not e["r"] for e in n["rx"]):
            t.append("source/sink")
        if len({core.cj([e["l"], e["r"]]) for e in n["rx"]}) < len(n["rx"]):
            t.append("repeated-reaction")
        return t


def with_mol(net, rng: random.Random):
    n = dict(net)
    # labels: strings, and now and then a molecule index (0 included) or an empty string
    n["mol"] = {s: rng.choice([f"s:mol_{s}", f"s:mol_{s}", f"s:mol_{s}", "i:0", "i:%d" % rng.randint(1, 9), "s:"]) for s in net["sp"] if rng.random() < 0.6}
    return n


def relabel_ids(net, rng: random.Random):
    """ids that do not sort like their insertion order, multi-rule"""
    n = dict(net)
    ids = rng.sample(["r_1", "r_2", "r_10", "q_1", "x", "k_3", "r_3", "zz", "a1", "r_21"], len(net["rx"]))
    n["rx"] = [dict(e, id=i) for e, i in zip(net["rx"], ids)]
    return n


NAMES = ["A", "B", "C", "D", "E2", "Fe", "glc", "H2O"]


def multi_digit(net, rng):
    n = dict(net)
    n["rx"] = [dict(e, l={s: (c if rng.random() < 0.7 else c * rng.choice([10, 12, 25])) for s, c in e["l"].items()},
                    r={s: (c if rng.random() < 0.7 else c * rng.choice([10, 11, 30])) for s, c in e["r"].items()}) for e in net["rx"]]
    return n


def run(ctx: core.Ctx) -> None:
    ctx.assumptions += ["TLC 1.8 + Json module trusted",
                        "species names are identifiers starting with a letter and free of '+ > | *' and blanks (documented limit of the text format)",
                        "invertibility of the bipartite export is claimed with include_stoich and include_role on; ids only with include_edge_id_attr"]
    q, rng = ctx.quick, ctx.rng
    gen = core.tlc_generate(ctx, "NetGen", {"MaxCoef": "2" if not q else "1", "MaxRx": "2", "Dup": "TRUE"}, label="exhaustive")
    nets = [crnlib.norm_net(n) for n in gen]
    gen3 = core.tlc_generate(ctx, "NetGen", {"MaxCoef": "3", "MaxRx": "1", "Dup": "FALSE"}, label="coef0..3-single")
    nets += [crnlib.norm_net(n) for n in gen3]
    if q:
        nets = rng.sample(nets, min(len(nets), 5000))
    flagsets = [{"integer_ids": a, "edge_id_attr": b, "mol": m, "prefix": p, "isolated": i}
                for a in (False, True) for b in (False, True) for m in (False, True) for p in ("default", "custom") for i in (True, False)]
    bip = [{"net": with_mol(n, rng), "flags": rng.choice(flagsets)} for n in nets]
    core.run_stage(ctx, S("bipartite-exhaustive", bip_case, bip))
    core.run_stage(ctx, S("strings-exhaustive", str_case,
                          [{"net": n, "flags": {"edge_id": rng.random() < 0.5, "sort": rng.random() < 0.5}} for n in nets]))
    core.run_stage(ctx, S("species-graph-exhaustive", sg_case, [{"net": with_mol(n, rng), "flags": {"mol": rng.random() < 0.5}} for n in nets]))
    ctx.exhaustive = True
    n = 1500 if q else 30000
    rnd = []
    for _ in range(n):
        net = crnlib.random_net(rng, 8, 10, 3, names=rng.sample(NAMES, len(NAMES)))
        if rng.random() < 0.5:
            net = relabel_ids(net, rng)
        if rng.random() < 0.3:
            net = multi_digit(net, rng)
        rnd.append(crnlib.norm_net(net) | {})
    core.run_stage(ctx, S("bipartite-random", bip_case, [{"net": with_mol(x, rng), "flags": rng.choice(flagsets)} for x in rnd]))
    core.run_stage(ctx, S("strings-random", str_case, [{"net": x, "flags": {"edge_id": rng.random() < 0.5, "sort": rng.random() < 0.5}} for x in rnd]))
    both = []
    for _ in range(n):
        net = crnlib.random_net(rng, 6, 8, 3, allow_empty_side=False)
        if rng.random() < 0.5:      # several reactions sharing a species pair with different coefficients
            e = rng.choice(net["rx"])
            for k in range(rng.randint(1, 3)):
                net["rx"].append({"id": f"r_{len(net['rx'])+1}", "rule": "r",
                                  "l": {s: rng.randint(1, 3) for s in e["l"]}, "r": {s: rng.randint(1, 3) for s in e["r"]}})
            net = crnlib.norm_net(net)
        both.append(net)
    core.run_stage(ctx, S("species-graph-random", sg_case, [{"net": with_mol(x, rng), "flags": {"mol": rng.random() < 0.5}} for x in both]))


def replay(ctx, data):
    st = data["stage"]
    fn = bip_case if st.startswith("bip") else str_case if st.startswith("str") else sg_case
    core.run_stage(ctx, S(st, fn, [data["input"]]))

"""C19 - complexes, linkage classes and deficiency follow their definitions."""
from __future__ import annotations

from typing import Any, Dict

from harness import core, crnlib


def analyse(net: Dict[str, Any]) -> Dict[str, Any]:
    from synkit.CRN.Props.deficiency import DeficiencyAnalyzer
    H = crnlib.build(net)
    an = DeficiencyAnalyzer(H).compute_crn_deficiency()
    d = an.as_dict()
    s = an.summary
    if d["deficiency"] != s.deficiency or d["n_complexes"] != s.n_complexes:
        raise AssertionError("summary and as_dict disagree")
    return {"net": net,
            "out": {"n_species": int(d["n_species"]), "n_reactions": int(d["n_reactions"]),
                    "n_complexes": int(d["n_complexes"]), "n_linkage": int(d["n_linkage_classes"]),
                    "rank": int(d["stoich_rank"]), "deficiency": int(d["deficiency"]),
                    "wr": bool(d["weakly_reversible"]), "ldef": sorted(int(x) for x in d["linkage_deficiencies"])}}


class Nets(core.Stage):
    module = "C19Cases"
    shard_size = 3000
    nontrivial_rule = "network with at least 2 reactions"

    def __init__(self, name, inputs):
        self.name = name
        self._inputs = inputs

    def inputs(self, ctx):
        return self._inputs

    def execute(self, inp):
        return analyse(inp)

    def nontrivial(self, case):
        return len(case["net"]["rx"]) >= 2


def run(ctx: core.Ctx) -> None:
    ctx.assumptions += ["TLC 1.8 + Json module trusted", "harness builds the CRNHyperGraph with add_rxn (trusted via C15)"]
    q = ctx.quick
    gen = core.tlc_generate(ctx, "NetGen", {"MaxCoef": "1", "MaxRx": "3" if q else "3", "Dup": "FALSE"}, label="coef01-rx3")
    core.run_stage(ctx, Nets("exhaustive-coef01-rx3", [crnlib.norm_net(n) for n in gen]))
    gen = core.tlc_generate(ctx, "NetGen", {"MaxCoef": "2", "MaxRx": "1" if q else "2", "Dup": "FALSE"}, label="coef012")
    core.run_stage(ctx, Nets("exhaustive-coef012", [crnlib.norm_net(n) for n in gen]))
    ctx.exhaustive = True
    core.run_stage(ctx, Nets("textbook", [crnlib.parse(v) for v in crnlib.TEXTBOOK.values()]))
    n = 1500 if q else 30000
    core.run_stage(ctx, Nets("random-6x6", [crnlib.random_net(ctx.rng, 6, 6, 2) for _ in range(n)]))


def replay(ctx, data):
    core.run_stage(ctx, Nets(data["stage"], [data["input"]]))

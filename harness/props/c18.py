"""C18 - network canonical form is a complete invariant; automorphism data are exact."""
from __future__ import annotations

import random
from typing import Any, Dict, List

from harness import core, crnlib, graphlib as gl


def project_d(G, node_attrs, edge_attrs, coder, ids, plain=False):
    """directed networkx view -> abstract digraph with the SEMANTIC codes used by C18Cases.tla:
    species 1 (101 with a self-loop), reaction 2; reactant arc 10 + stoich, product arc 50 + stoich, other arc 1"""
    idx = {v: k for k, v in enumerate(ids)}
    n = len(ids)

    def ecode(d):
        if plain:
            return 1
        role = d.get("role") if "role" in edge_attrs else None
        st = d.get("stoich") if "stoich" in edge_attrs else None
        base = {"reactant": 10, "product": 50}.get(role, 1)
        return base + (int(st) if (st is not None and role is not None) else 0)
    loops = {u for u, v in G.edges() if u == v}
    lab = []
    for v in ids:
        kind = G.nodes[v].get("kind")
        lab.append({"species": 1, "reaction": 2}.get(kind, 9) + (100 if v in loops else 0))
    adj = [[0] * n for _ in range(n)]
    for u, v, d in G.edges(data=True):
        if u != v:
            adj[idx[u]][idx[v]] = ecode(d)
    return {"n": n, "lab": lab, "hc": [0] * n, "adj": adj}


def variant(net, rng: random.Random, how: str):
    rx = [dict(e, l=dict(e["l"]), r=dict(e["r"])) for e in net["rx"]]
    if how in ("rename", "all"):
        names = sorted({s for e in rx for s in list(e["l"]) + list(e["r"])})
        pool = rng.sample(["A", "B", "C", "D", "E", "F", "G", "X1", "Y2", "Z"], len(names))
        ren = dict(zip(names, pool))
        for e in rx:
            e["l"] = {ren[s]: c for s, c in e["l"].items()}
            e["r"] = {ren[s]: c for s, c in e["r"].items()}
    if how in ("reorder", "all"):
        rng.shuffle(rx)
    if how in ("ids", "all"):
        new = rng.sample(["r_%d" % k for k in range(1, 30)] + ["x", "y", "q_1", "q_2"], len(rx))
        for e, i in zip(rx, new):
            e["id"] = i
    return crnlib.norm_net({"rx": rx})


def canon_case(inp):
    from synkit.CRN.Topo.canon import CRNCanonicalizer
    from synkit.CRN.Topo.automorphism import CRNAutomorphism
    nets = inp["nets"]
    runs = []
    # ONE hypergraph object per network, analysed under every configuration in turn (in a per-case order):
    # an answer may depend on the network and the configuration only, not on earlier analyses of the same object
    built = [crnlib.build(net) for net in nets]
    cfgs = list(inp["cfgs"])
    random.Random(core.digest(inp)).shuffle(cfgs)
    for cfg in cfgs:
        coder, coder2 = gl.Coder(), gl.Coder()
        r = {"cfg": "view=%s,stoich=%s" % ("bipartite" if cfg["rule"] else "species", cfg["stoich"]),
             "bipartite": bool(cfg["rule"]), "stoich": bool(cfg["stoich"]),
             "nets": [{"sp": n_["sp"], "rx": n_["rx"]} for n_ in nets], "align": [], "align_plain": [],
             "wl_cg": [], "wl_orbits": [],
             "view": [], "cg": [], "cgids": [], "naut": [], "orbits": [], "aut_naut": [], "aut_orbits": [], "view_plain": []}
        for net, H in zip(nets, built):
            C = CRNCanonicalizer(H, include_rule=cfg["rule"], include_stoich=cfg["stoich"])
            na, ea = list(C.node_attr_keys), list(C.edge_attr_keys)
            G = C.G
            ids = list(G.nodes())
            idx = {v: k + 1 for k, v in enumerate(ids)}
            s = C.summary()
            cg = s["canon_graph"]
            cids = sorted(cg.nodes(), key=lambda x: (str(type(x)), x))
            r["view"].append(project_d(G, na, ea, coder, ids))
            r["cg"].append(project_d(cg, na, ea, coder, cids))
            r["cgids"].append([repr(x) for x in cids])
            r["naut"].append(int(s["automorphism_count"]))
            r["orbits"].append([sorted(idx[v] for v in o) for o in s["orbits"]])
            from synkit.CRN.Topo.wl_canon import WLCanonicalizer
            W = WLCanonicalizer(H, include_rule=cfg["rule"], include_stoich=cfg["stoich"])
            ws = W.summary()
            widx = {v: k + 1 for k, v in enumerate(list(W.G.nodes()))}
            wcg = ws["canon_graph"]
            r["wl_cg"].append(project_d(wcg, na, ea, coder, sorted(wcg.nodes(), key=lambda x: (str(type(x)), x))))
            r["wl_orbits"].append([sorted(idx[v] for v in o) for o in ws["orbits"]])
            A = CRNAutomorphism(H, include_rule=cfg["rule"], include_stoich=cfg["stoich"])
            GA = A.G
            ida = list(GA.nodes())
            ixa = {v: k + 1 for k, v in enumerate(ida)}
            sa = A.summary(max_count=10 ** 6, timeout_sec=None) if "max_count" in A.summary.__code__.co_varnames else A.summary()
            r["view_plain"].append(project_d(GA, list(A.node_attr_keys), [], coder2, ida, plain=True))

            def align(index):
                names = list(net["sp"]) + ([e["id"] for e in net["rx"]] if cfg["rule"] else [])
                return [index.get(x, 0) for x in names]
            r["align"].append(align(idx))
            r["align_plain"].append(align(ixa))
            r["aut_naut"].append(int(sa["automorphism_count"]))
            r["aut_orbits"].append([sorted(ixa[v] for v in o) for o in sa["orbits"]])
        runs.append(r)
    return {"runs": runs}


class S(core.Stage):
    module = "C18Cases"
    shard_size = 300
    nontrivial_rule = "family whose first network has a non-trivial automorphism in some view"

    def __init__(self, name, inputs):
        self.name, self._inputs = name, inputs

    def inputs(self, ctx):
        return self._inputs

    def execute(self, inp):
        return canon_case(inp)

    def nontrivial(self, c):
        return any(r["naut"][0] > 1 for r in c["runs"])

    def tags(self, c):
        return ["naut>1"] if any(r["naut"][0] > 1 for r in c["runs"]) else []


CFGS = [{"rule": a, "stoich": b} for a in (True, False) for b in (True, False)]


def fam(net, rng, other):
    return {"nets": [net, variant(net, rng, "rename"), variant(net, rng, "reorder"), variant(net, rng, "ids"), variant(net, rng, "all"), other],
            "cfgs": CFGS}


def ring(n, k=1):
    names = [chr(ord("A") + i) for i in range(n)]
    return crnlib.norm_net({"rx": [{"id": f"r_{i+1}", "rule": "r", "l": {names[i]: k}, "r": {names[(i + 1) % n]: k}} for i in range(n)]})


def run(ctx: core.Ctx) -> None:
    ctx.assumptions += ["TLC 1.8 + Json module trusted",
                        "the view graph (CRNCanonicalizer.G / CRNAutomorphism.G) is taken from the code (its correctness is C16); 'identical' canonical graphs means equal node ids, arcs and selected attribute values",
                        "selected attributes: kind; role, stoich (canonicaliser) and kind with adjacency/direction only (CRNAutomorphism), as documented"]
    q, rng = ctx.quick, ctx.rng
    gen = core.tlc_generate(ctx, "NetGen", {"MaxCoef": "1", "MaxRx": "2", "Dup": "FALSE"}, label="exhaustive")
    nets = [crnlib.norm_net(n) for n in gen]
    if q:
        nets = rng.sample(nets, min(len(nets), 700))
    else:
        ctx.exhaustive = True
    core.run_stage(ctx, S("all-small-networks", [fam(n, rng, rng.choice(nets)) for n in nets]))
    if not q:
        # coefficients up to 2: 265k networks; a sample, executed and judged in batches (a worker holds its whole chunk of cases)
        gen2 = core.tlc_generate(ctx, "NetGen", {"MaxCoef": "2", "MaxRx": "2", "Dup": "FALSE"}, label="coef<=2")
        pick = rng.sample(range(len(gen2)), min(len(gen2), 20000))
        nets2 = [crnlib.norm_net(gen2[k]) for k in pick]
        del gen2
        for b in range(0, len(nets2), 4000):
            core.run_stage(ctx, S("small-networks-coef<=2", [fam(n, rng, rng.choice(nets2)) for n in nets2[b:b + 4000]]))
    sym = [ring(n) for n in (2, 3, 4, 5, 6, 6, 6)] + [ring(3, 2), crnlib.parse(["A>>B", "A>>C"]), crnlib.parse(["A+B>>C", "C>>A+B"]),
                                               crnlib.parse(["A>>B", "B>>A", "C>>D", "D>>C"]), crnlib.parse(["2A>>B", "2C>>B"]),
                                               crnlib.parse(["A+B>>C+D"]), crnlib.parse(["A>>B", "A>>B"])]
    core.run_stage(ctx, S("symmetric-families", [fam(n, rng, rng.choice(sym)) for n in sym for _ in range(1 if q else 3)]))
    rnd = []
    for _ in range(120 if q else 5000):
        n = crnlib.random_net(rng, 6, 5, 2)
        o = variant(n, rng, "all")
        if o["rx"]:
            e = rng.choice(o["rx"])
            side = rng.choice(["l", "r"])
            if e[side]:
                s = rng.choice(sorted(e[side]))
                e[side][s] = e[side][s] % 2 + 1          # one coefficient changed: look-alike
            o = crnlib.norm_net(o)
        rnd.append(fam(n, rng, o))
    core.run_stage(ctx, S("random-6x5", rnd))


def replay(ctx, data):
    core.run_stage(ctx, S(data["stage"], [data["input"]]))

"""C08 - graph canonicalisation is faithful and sound; the exact back-end is invariant."""
from __future__ import annotations

import copy
import random
from typing import Any, Dict, List

import networkx as nx

from harness import core, graphlib as gl

NODE_ATTRS = ["element", "aromatic", "charge", "hcount"]
EDGE_ATTRS = ["order"]


def canon_case(inp):
    from synkit.Graph.canon_graph import GraphCanonicaliser
    from synkit.Graph.Canon.nauty import NautyCanonicalizer
    from synkit.Graph.syn_graph import SynGraph
    rng = random.Random(inp["seed"])
    objs, ids = [], []
    for g in inp["graphs"]:
        G, i = gl.realise(g, rng)
        for k, v in enumerate(i):
            G.nodes[v]["vtag"] = k + 1          # harness tag: lets us read the relabelling back
        objs.append(G)
        ids.append(i)
    coder = gl.Coder()
    absg = [gl.project(G, NODE_ATTRS, EDGE_ATTRS, coder, ids=i, hcount=False)[0] for G, i in zip(objs, ids)]

    def read_back(C, n):
        """canonical graph -> (pi, abstract canonical graph in the order 1..N)"""
        nodes = list(C.nodes())
        pi = [0] * n
        for v in nodes:
            t = C.nodes[v].get("vtag", 0)
            if isinstance(v, int) and not isinstance(v, bool) and 1 <= t <= n:
                pi[t - 1] = v
        order = sorted(nodes, key=lambda x: (not isinstance(x, int), x if isinstance(x, int) else 0))
        if sorted(n_ for n_ in nodes if isinstance(n_, int)) == list(range(1, n + 1)):
            order = list(range(1, n + 1))
        cg = gl.project(C, NODE_ATTRS, EDGE_ATTRS, coder, ids=order, hcount=False)[0]
        return pi, cg
    out = []
    for backend in inp["backends"]:
        r = {"backend": backend, "exact": backend.startswith("nauty"), "sig": [], "sig2": [], "pi": [], "cg": [], "eq": []}
        if backend in ("generic", "wl", "morgan", "nauty"):
            can = GraphCanonicaliser(backend=backend)
            for G, g in zip(objs, absg):
                w = can.canonicalise_graph(G)
                r["sig"].append(str(w.canonical_hash))
                r["sig2"].append(str(GraphCanonicaliser(backend=backend).canonicalise_graph(copy.deepcopy(G)).canonical_hash))
                pi, cg = read_back(w.canonical_graph, g["n"])
                r["pi"].append(pi)
                r["cg"].append(cg)
        elif backend.endswith("-signature"):
            be = backend[:-len("-signature")]
            can = GraphCanonicaliser(backend=be)
            for G in objs:
                r["sig"].append(str(can.canonical_signature(G)))
                r["sig2"].append(str(GraphCanonicaliser(backend=be).canonical_signature(copy.deepcopy(G))))
        elif backend == "nauty-direct":
            nc = NautyCanonicalizer(node_attrs=NODE_ATTRS, edge_attrs=EDGE_ATTRS)
            for G, g in zip(objs, absg):
                r["sig"].append(str(nc.graph_signature(G)))
                r["sig2"].append(str(NautyCanonicalizer(node_attrs=NODE_ATTRS, edge_attrs=EDGE_ATTRS).graph_signature(copy.deepcopy(G))))
                pi, cg = read_back(nc.canonical_form(G), g["n"])
                r["pi"].append(pi)
                r["cg"].append(cg)
        elif backend == "nauty-syngraph":
            ws = [SynGraph(G, GraphCanonicaliser(backend="nauty")) for G in objs]
            r["sig"] = [str(w.signature) for w in ws]
            r["sig2"] = [str(SynGraph(copy.deepcopy(G), GraphCanonicaliser(backend="nauty")).signature) for G in objs]
            r["eq"] = [[bool(a == b) and (hash(a) == hash(b)) for b in ws] for a in ws]
        else:
            raise core.MachineryError(backend)
        out.append(r)
    # the tag must not influence canonicalisation (it is not among the selected attributes); graphs unchanged
    return {"g": absg, "b": out}


def stream_case(inp):
    """One long-lived canonicaliser per back-end signs graphs that are created and discarded one after the other
    (object identities are re-used by the allocator): a signature may depend on the graph only, not on the history."""
    from synkit.Graph.canon_graph import GraphCanonicaliser
    from synkit.Graph.syn_graph import SynGraph
    rng = random.Random(inp["seed"])
    coder = gl.Coder()
    cans = {b: GraphCanonicaliser(backend=b) for b in ("generic", "wl", "morgan", "nauty")}
    absg = []
    sigs = {b: [] for b in cans}
    sigs["nauty-syngraph"] = []
    for g in inp["graphs"]:
        G, i = gl.realise(g, rng)
        absg.append(gl.project(G, NODE_ATTRS, EDGE_ATTRS, coder, ids=i, hcount=False)[0])
        for b, can in cans.items():
            sigs[b].append(str(can.canonical_signature(G)))
        sigs["nauty-syngraph"].append(str(SynGraph(G, cans["nauty"]).signature))
        del G
    out = []
    for b, sg in sigs.items():
        fresh = []
        for g in inp["graphs"]:
            pass
        out.append({"backend": b + "-streamed", "exact": b.startswith("nauty"), "sig": sg, "sig2": sg, "pi": [], "cg": [], "eq": []})
    return {"g": absg, "b": out}


class S(core.Stage):
    module = "C08Cases"
    shard_size = 500
    nontrivial_rule = "family contains two distinct objects of one isomorphism class with >= 3 nodes"

    def __init__(self, name, inputs):
        self.name, self._inputs = name, inputs

    def inputs(self, ctx):
        return self._inputs

    def execute(self, inp):
        return stream_case(inp) if inp.get("stream") else canon_case(inp)

    def nontrivial(self, c):
        return c["g"][0]["n"] >= 3


BACKENDS = ["generic", "wl", "morgan", "nauty", "generic-signature", "wl-signature", "morgan-signature", "nauty-signature",
            "nauty-direct", "nauty-syngraph"]


def family(rng, g, other=None):
    """objects: g, two relabelled copies, a look-alike (one edit), its copy, optionally another graph"""
    fam = [g, gl.permuted(g, rng), gl.permuted(g, rng)]
    h = {"n": g["n"], "lab": list(g["lab"]), "hc": list(g["hc"]), "adj": [list(r) for r in g["adj"]]}
    if g["n"]:
        k = rng.randrange(g["n"])
        e = rng.random()
        if e < 0.4 or g["n"] == 1:
            h["hc"][k] = 1 - h["hc"][k] if h["hc"][k] in (0, 1) else 0
        elif e < 0.7:
            h["lab"][k] = h["lab"][k] % 3 + 1
        else:
            j = (k + 1 + rng.randrange(g["n"] - 1)) % g["n"]
            h["adj"][k][j] = h["adj"][j][k] = (h["adj"][k][j] + 1) % 3
        fam += [h, gl.permuted(h, rng)]
    if other is not None:
        fam.append(other)
    return fam


def cyc(n, lab=1, order=1):
    adj = [[0] * n for _ in range(n)]
    for i in range(n):
        adj[i][(i + 1) % n] = adj[(i + 1) % n][i] = order
    return {"n": n, "lab": [lab] * n, "hc": [0] * n, "adj": adj}


def from_nx(G, lab=1):
    nodes = list(G.nodes())
    idx = {v: i for i, v in enumerate(nodes)}
    n = len(nodes)
    adj = [[0] * n for _ in range(n)]
    for u, v in G.edges():
        adj[idx[u]][idx[v]] = adj[idx[v]][idx[u]] = 1
    return {"n": n, "lab": [lab] * n, "hc": [0] * n, "adj": adj}


def symmetric_families(rng) -> List[Any]:
    gs = [cyc(n) for n in range(3, 9)]
    gs += [from_nx(nx.complete_bipartite_graph(2, 3)), from_nx(nx.complete_bipartite_graph(3, 3)), from_nx(nx.hypercube_graph(3)),
           from_nx(nx.star_graph(4)), from_nx(nx.petersen_graph()) if False else from_nx(nx.complete_graph(4))]
    # refinement-equivalent but non-automorphic nodes: C3 + C4 of one element, plus an isolated other atom
    t = gl.disjoint_union(gl.disjoint_union(cyc(3, lab=2), cyc(4, lab=2)), {"n": 1, "lab": [1], "hc": [0], "adj": [[0]]})
    gs += [t, gl.disjoint_union(cyc(3), cyc(4)), gl.disjoint_union(cyc(3), cyc(3)), gl.disjoint_union(cyc(6), {"n": 1, "lab": [2], "hc": [0], "adj": [[0]]})]
    # 6-cycle vs two triangles (same degrees, not isomorphic)
    out = []
    for g in gs:
        for rep in range(3):
            fam = [g] + [gl.permuted(g, rng) for _ in range(4)]
            out.append({"graphs": fam, "backends": BACKENDS, "seed": rng.randrange(10 ** 9)})
    out.append({"graphs": [cyc(6), gl.disjoint_union(cyc(3), cyc(3)), gl.permuted(cyc(6), rng)], "backends": BACKENDS, "seed": 7})
    return out


def run(ctx: core.Ctx) -> None:
    ctx.assumptions += ["TLC 1.8 + Json module trusted", "SHA-256 signatures are compared as strings (collision freedom)",
                        "signature-covered attributes: element, aromatic, charge, hcount; order"]
    q, rng = ctx.quick, ctx.rng
    base = {"NLab": "2", "MaxHc": "1", "MaxOrd": "2", "CanonOnly": "TRUE", "MinN": "1"}
    g3 = core.tlc_generate(ctx, "GraphGen", dict(base, MaxN="3"), label="graphs<=3")
    ctx.exhaustive = True
    core.run_stage(ctx, S("all-graphs<=3", [{"graphs": family(rng, g, rng.choice(g3)), "backends": BACKENDS, "seed": rng.randrange(10 ** 9)} for g in g3]))
    g4 = core.tlc_generate(ctx, "GraphGen", dict(base, MaxN="4", MinN="4", MaxHc="0" if q else "1"), label="graphs=4")
    if q:
        g4 = rng.sample(g4, 500)
    core.run_stage(ctx, S("graphs=4", [{"graphs": family(rng, g, rng.choice(g4)), "backends": BACKENDS, "seed": rng.randrange(10 ** 9)} for g in g4]))
    if not q:
        g5 = core.tlc_generate(ctx, "GraphGen", {"MaxN": "5", "NLab": "2", "MaxHc": "0", "MaxOrd": "1", "CanonOnly": "TRUE", "MinN": "5"}, label="graphs=5")
        core.run_stage(ctx, S("graphs=5", [{"graphs": family(rng, g, rng.choice(g5)), "backends": BACKENDS, "seed": rng.randrange(10 ** 9)} for g in g5]))
    core.run_stage(ctx, S("symmetric-families", symmetric_families(rng)))
    rnd = []
    for _ in range(250 if q else 6000):
        g = gl.random_graph(rng, rng.randint(3, 9), nlab=3, maxhc=1, maxord=2, connected=rng.random() < 0.7)
        rnd.append({"graphs": family(rng, g), "backends": BACKENDS, "seed": rng.randrange(10 ** 9)})
    core.run_stage(ctx, S("random<=9", rnd))
    streams = []
    for _ in range(60 if q else 1500):
        n, e = rng.randint(3, 6), None
        gs = []
        for _ in range(14):          # same node and edge counts throughout: look-alikes at recycled addresses
            g = gl.random_graph(rng, n, nlab=2, maxhc=1, maxord=2, connected=True)
            gs.append(g)
            if rng.random() < 0.4:
                gs.append(gl.permuted(g, rng))
        streams.append({"graphs": gs, "stream": True, "seed": rng.randrange(10 ** 9)})
    core.run_stage(ctx, S("streamed-through-one-canonicaliser", streams))


def replay(ctx, data):
    core.run_stage(ctx, S(data["stage"], [data["input"]]))

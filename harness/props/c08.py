"""C08 - graph canonicalisation is faithful and sound; the exact back-end is invariant."""
from __future__ import annotations

import copy
import random
from typing import Any, Dict, List

import networkx as nx

from harness import core, graphlib as gl

NODE_ATTRS = ["element", "aromatic", "charge", "hcount"]
EDGE_ATTRS = ["order"]


def canon_case(inp):
    from synkit.Graph.canon_graph import GraphCanonicaliser
    from synkit.Graph.Canon.nauty import NautyCanonicalizer
    from synkit.Graph.syn_graph import SynGraph
    rng = random.Random(inp["seed"])
    objs, ids = [], []
    for g in inp["graphs"]:
        G, i = gl.realise(g, rng)
        for k, v in enumerate(i):
            G.nodes[v]["vtag"] = k + 1          # harness tag: lets us read the relabelling back
        objs.append(G)
        ids.append(i)
    coder = gl.Coder()
    absg = [gl.project(G, NODE_ATTRS, EDGE_ATTRS, coder, ids=i, hcount=False)[0] for G, i in zip(objs, ids)]

    def read_back(C, n):
        """canonical graph -> (pi, abstract canonical graph in the order 1..N)"""
        nodes = list(C.nodes())
        pi = [0] * n
        for v in nodes:
            t = C.nodes[v].get("vtag", 0)
            if isinstance(v, int) and not isinstance(v, bool) and 1 <= t <= n:
                pi[t - 1] = v
        order = sorted(nodes, key=lambda x: (not isinstance(x, int), x if isinstance(x, int) else 0))
        if sorted(n_ for n_ in nodes if isinstance(n_, int)) == list(range(1, n + 1)):
            order = list(range(1, n + 1))
        cg = gl.project(C, NODE_ATTRS, EDGE_ATTRS, coder, ids=order, hcount=False)[0]
        return pi, cg
    out = []
    for backend in inp["backends"]:
        r = {"backend": backend, "exact": backend.startswith("nauty"), "sig": [], "sig2": [], "pi": [], "cg": [], "eq": []}
        if backend in ("generic", "wl", "morgan", "nauty"):
            can = GraphCanonicaliser(backend=backend)
            for G, g in zip(objs, absg):
                w = can.canonicalise_graph(G)
                r["sig"].append(str(w.canonical_hash))
                r["sig2"].append(str(GraphCanonicaliser(backend=backend).canonicalise_graph(copy.deepcopy(G)).canonical_hash))
                pi, cg = read_back(w.canonical_graph, g["n"])
                r["pi"].append(pi)
                r["cg"].append(cg)
        elif backend.endswith("-signature"):
            be = backend[:-len("-signature")]
            can = GraphCanonicaliser(backend=be)
            for G in objs:
                r["sig"].append(str(can.canonical_signature(G)))
                r["sig2"].append(str(GraphCanonicaliser(backend=be).canonical_signature(copy.deepcopy(G))))
        elif backend == "nauty-direct":
            nc = NautyCanonicalizer(node_attrs=NODE_ATTRS, edge_attrs=EDGE_ATTRS)
            for G, g in zip(objs, absg):
                r["sig"].append(str(nc.graph_signature(G)))
                r["sig2"].append(str(NautyCanonicalizer(node_attrs=NODE_ATTRS, edge_attrs=EDGE_ATTRS).graph_signature(copy.deepcopy(G))))
                pi, cg = read_back(nc.canonical_form(G), g["n"])
                r["pi"].append(pi)
                r["cg"].append(cg)
        elif backend == "nauty-syngraph":
            ws = [SynGraph(G, GraphCanonicaliser(backend="nauty")) for G in objs]
            r["sig"] = [str(w.signature) for w in ws]
            r["sig2"] = [str(SynGraph(copy.deepcopy(G), GraphCanonicaliser(backend="nauty")).signature) for G in objs]
            r["eq"] = [[bool(a == b) and (hash(a) == hash(b)) for b in ws] for a in ws]
        elif backend == "nauty-synrule":
            # rule wrapper: every object is read as a reaction centre (node attributes equal on both sides, the bond code
            # decoded into a (before, after) order pair, so every bond is a changed bond); rule isomorphism = graph isomorphism
            from synkit.Rule.syn_rule import SynRule
            import networkx as nx
            PAIR = {1.0: (1.0, 0.0), 2.0: (0.0, 1.0), 1.5: (1.0, 2.0), 3.0: (2.0, 1.0)}
            if any(G.number_of_nodes() == 0 or any(G.degree(v) == 0 for v in G) for G in objs):
                continue           # an atom without a changed bond is not part of a reaction centre

            def as_rc(G):
                I = nx.Graph()
                for v, d in G.nodes(data=True):
                    # the hydrogen count is read as a count that the rule removes: (hcount before, 0 after)
                    t0 = (d["element"], False, int(d.get("hcount", 0)), d["charge"], [])
                    t1 = (d["element"], False, 0, d["charge"], [])
                    I.add_node(v, element=d["element"], aromatic=False, hcount=int(d.get("hcount", 0)), charge=d["charge"], atom_map=v, typesGH=(t0, t1))
                for u, v, d in G.edges(data=True):
                    a, b = PAIR[d["order"]]
                    I.add_edge(u, v, order=(a, b), standard_order=a - b)
                return I
            ws = [SynRule(as_rc(G), canonicaliser=GraphCanonicaliser(backend="nauty"), implicit_h=False) for G in objs]
            r["eq"] = [[bool(a == b) and (hash(a) == hash(b)) for b in ws] for a in ws]
            r["exact"] = True
        else:
            raise core.MachineryError(backend)
        out.append(r)
    # the tag must not influence canonicalisation (it is not among the selected attributes); graphs unchanged
    return {"g": absg, "b": out}


def stream_case(inp):
    """One long-lived canonicaliser per back-end signs graphs that are created and discarded one after the other
    (object identities are re-used by the allocator): a signature may depend on the graph only, not on the history."""
    from synkit.Graph.canon_graph import GraphCanonicaliser
    from synkit.Graph.syn_graph import SynGraph
    rng = random.Random(inp["seed"])
    coder = gl.Coder()
    cans = {b: GraphCanonicaliser(backend=b) for b in ("generic", "wl", "morgan", "nauty")}
    absg = []
    sigs = {b: [] for b in cans}
    sigs["nauty-syngraph"] = []
    for g in inp["graphs"]:
        G, i = gl.realise(g, rng)
        absg.append(gl.project(G, NODE_ATTRS, EDGE_ATTRS, coder, ids=i, hcount=False)[0])
        for b, can in cans.items():
            sigs[b].append(str(can.canonical_signature(G)))
        sigs["nauty-syngraph"].append(str(SynGraph(G, cans["nauty"]).signature))
        del G
    out = []
    for b, sg in sigs.items():
        fresh = []
        for g in inp["graphs"]:
            pass
        out.append({"backend": b + "-streamed", "exact": b.startswith("nauty"), "sig": sg, "sig2": sg, "pi": [], "cg": [], "eq": []})
    return {"g": absg, "b": out}


class S(core.Stage):
    module = "C08Cases"
    shard_size = 500
    nontrivial_rule = "family contains two distinct objects of one isomorphism class with >= 3 nodes"

    def __init__(self, name, inputs):
        self.name, self._inputs = name, inputs

    def inputs(self, ctx):
        return self._inputs

    def execute(self, inp):
        return stream_case(inp) if inp.get("stream") else canon_case(inp)

    def nontrivial(self, c):
        return c["g"][0]["n"] >= 3


BACKENDS = ["generic", "wl", "morgan", "nauty", "generic-signature", "wl-signature", "morgan-signature", "nauty-signature", "nauty-synrule",
            "nauty-direct", "nauty-syngraph"]


def family(rng, g, other=None):
    """objects: g, two relabelled copies, a look-alike (one edit), its copy, optionally another graph"""
    fam = [g, gl.permuted(g, rng), gl.permuted(g, rng)]
    h = {"n": g["n"], "lab": list(g["lab"]), "hc": list(g["hc"]), "adj": [list(r) for r in g["adj"]]}
    if g["n"]:
        k = rng.randrange(g["n"])
        e = rng.random()
        if e < 0.4 or g["n"] == 1:
            h["hc"][k] = 1 - h["hc"][k] if h["hc"][k] in (0, 1) else 0
        elif e < 0.7:
            h["lab"][k] = h["lab"][k] % 3 + 1
        else:
            j = (k + 1 + rng.randrange(g["n"] - 1)) % g["n"]
            h["adj"][k][j] = h["adj"][j][k] = (h["adj"][k][j] + 1) % 3
        fam += [h, gl.permuted(h, rng)]
        # a look-alike that differs only by a non-integral bond order (single -> 1.5, code 3)
        es = [(u, v) for u in range(g["n"]) for v in range(u + 1, g["n"]) if g["adj"][u][v] in (1, 2)]
        if es:
            u, v = rng.choice(es)
            ar = {"n": g["n"], "lab": list(g["lab"]), "hc": list(g["hc"]), "adj": [list(r) for r in g["adj"]]}
            ar["adj"][u][v] = ar["adj"][v][u] = 3
            fam.append(ar)
    if other is not None:
        fam.append(other)
    rp = repaired(g, rng)
    if rp is not None:
        fam.append(rp)
    # hydrogen counts moved between atoms that otherwise look alike
    ks = list(range(g["n"]))
    rng.shuffle(ks)
    for a in ks:
        b = next((x for x in ks if x != a and g["lab"][x] == g["lab"][a] and g["hc"][x] != g["hc"][a]), None)
        if b is not None:
            hc = list(g["hc"])
            hc[a], hc[b] = hc[b], hc[a]
            fam.append({"n": g["n"], "lab": list(g["lab"]), "hc": hc, "adj": [list(r) for r in g["adj"]]})
            break
    return fam


def repaired(g, rng):
    """The bonds of one code moved by a permutation that keeps node attributes, the other bonds left in place: read as a
    rule, both sides are isomorphic to those of g, but the way they are joined usually is not."""
    n = g["n"]
    codes = sorted({g["adj"][u][v] for u in range(n) for v in range(u + 1, n) if g["adj"][u][v]})
    if len(codes) < 2:
        return None
    move = rng.choice(codes)
    for _ in range(8):
        groups = {}
        for k in range(n):
            groups.setdefault((g["lab"][k], g["hc"][k]), []).append(k)
        pi = list(range(n))
        for ks in groups.values():
            img = ks[:]
            rng.shuffle(img)
            for a, b in zip(ks, img):
                pi[a] = b
        adj = [[0 if g["adj"][u][v] == move else g["adj"][u][v] for v in range(n)] for u in range(n)]
        ok = True
        for u in range(n):
            for v in range(u + 1, n):
                if g["adj"][u][v] == move:
                    a, b = pi[u], pi[v]
                    if adj[a][b]:
                        ok = False
                    adj[a][b] = adj[b][a] = move
        if ok and adj != g["adj"]:
            return {"n": n, "lab": list(g["lab"]), "hc": list(g["hc"]), "adj": adj}
    return None


def cyc(n, lab=1, order=1):
    adj = [[0] * n for _ in range(n)]
    for i in range(n):
        adj[i][(i + 1) % n] = adj[(i + 1) % n][i] = order
    return {"n": n, "lab": [lab] * n, "hc": [0] * n, "adj": adj}


def from_nx(G, lab=1):
    nodes = list(G.nodes())
    idx = {v: i for i, v in enumerate(nodes)}
    n = len(nodes)
    adj = [[0] * n for _ in range(n)]
    for u, v in G.edges():
        adj[idx[u]][idx[v]] = adj[idx[v]][idx[u]] = 1
    return {"n": n, "lab": [lab] * n, "hc": [0] * n, "adj": adj}


def symmetric_families(rng) -> List[Any]:
    gs = [cyc(n) for n in range(3, 9)]
    gs += [from_nx(nx.complete_bipartite_graph(2, 3)), from_nx(nx.complete_bipartite_graph(3, 3)), from_nx(nx.hypercube_graph(3)),
           from_nx(nx.star_graph(4)), from_nx(nx.petersen_graph()) if False else from_nx(nx.complete_graph(4))]
    # refinement-equivalent but non-automorphic nodes: C3 + C4 of one element, plus an isolated other atom
    t = gl.disjoint_union(gl.disjoint_union(cyc(3, lab=2), cyc(4, lab=2)), {"n": 1, "lab": [1], "hc": [0], "adj": [[0]]})
    gs += [t, gl.disjoint_union(cyc(3), cyc(4)), gl.disjoint_union(cyc(3), cyc(3)), gl.disjoint_union(cyc(6), {"n": 1, "lab": [2], "hc": [0], "adj": [[0]]})]
    # 6-cycle vs two triangles (same degrees, not isomorphic)
    out = []
    for g in gs:
        for rep in range(3):
            fam = [g] + [gl.permuted(g, rng) for _ in range(4)]
            out.append({"graphs": fam, "backends": BACKENDS, "seed": rng.randrange(10 ** 9)})
    out.append({"graphs": [cyc(6), gl.disjoint_union(cyc(3), cyc(3)), gl.permuted(cyc(6), rng)], "backends": BACKENDS, "seed": 7})
    return out


def run(ctx: core.Ctx) -> None:
    ctx.assumptions += ["TLC 1.8 + Json module trusted", "SHA-256 signatures are compared as strings (collision freedom)",
                        "signature-covered attributes: element, aromatic, charge, hcount; order"]
    q, rng = ctx.quick, ctx.rng
    base = {"NLab": "2", "MaxHc": "1", "MaxOrd": "2", "CanonOnly": "TRUE", "MinN": "1"}
    g3 = core.tlc_generate(ctx, "GraphGen", dict(base, MaxN="3"), label="graphs<=3")
    ctx.exhaustive = True
    core.run_stage(ctx, S("all-graphs<=3", [{"graphs": family(rng, g, rng.choice(g3)), "backends": BACKENDS, "seed": rng.randrange(10 ** 9)} for g in g3]))
    g4 = core.tlc_generate(ctx, "GraphGen", dict(base, MaxN="4", MinN="4", MaxHc="0" if q else "1"), label="graphs=4")
    if q:
        g4 = rng.sample(g4, 500)
    core.run_stage(ctx, S("graphs=4", [{"graphs": family(rng, g, rng.choice(g4)), "backends": BACKENDS, "seed": rng.randrange(10 ** 9)} for g in g4]))
    if not q:
        g5 = core.tlc_generate(ctx, "GraphGen", {"MaxN": "5", "NLab": "2", "MaxHc": "0", "MaxOrd": "1", "CanonOnly": "TRUE", "MinN": "5"}, label="graphs=5")
        core.run_stage(ctx, S("graphs=5", [{"graphs": family(rng, g, rng.choice(g5)), "backends": BACKENDS, "seed": rng.randrange(10 ** 9)} for g in g5]))
    core.run_stage(ctx, S("symmetric-families", symmetric_families(rng)))
    rnd = []
    for _ in range(250 if q else 6000):
        g = gl.random_graph(rng, rng.randint(3, 9), nlab=3, maxhc=1, maxord=2, connected=rng.random() < 0.7)
        rnd.append({"graphs": family(rng, g), "backends": BACKENDS, "seed": rng.randrange(10 ** 9)})
    core.run_stage(ctx, S("random<=9", rnd))
    streams = []
    for _ in range(60 if q else 1500):
        n, e = rng.randint(3, 6), None
        gs = []
        for _ in range(14):          # same node and edge counts throughout: look-alikes at recycled addresses
            g = gl.random_graph(rng, n, nlab=2, maxhc=1, maxord=2, connected=True)
            gs.append(g)
            if rng.random() < 0.4:
                gs.append(gl.permuted(g, rng))
        streams.append({"graphs": gs, "stream": True, "seed": rng.randrange(10 ** 9)})
    core.run_stage(ctx, S("streamed-through-one-canonicaliser", streams))


def replay(ctx, data):
    core.run_stage(ctx, S(data["stage"], [data["input"]]))

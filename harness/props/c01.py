"""C01 - the ITS encoding of a mapped reaction is lossless and invertible."""
from __future__ import annotations

import random
from typing import Any, Dict, List

from harness import chem, core, itslib


def pair_case(inp):
    from synkit.Graph.ITS.its_construction import ITSConstruction
    from synkit.Graph.ITS.its_decompose import its_decompose
    rng = random.Random(inp["seed"])
    G, H, ids = itslib.realise_pair(inp["pair"], rng)
    aG, aH = chem.graph_abs(G, ids), chem.graph_abs(H, ids)
    runs = []
    for cfg in ("ITSGraph", "ITSGraph-balance", "construct", "construct-nostore", "construct-swapped-base",
                "ITSGraph-ignore-aromaticity", "construct-ignore-aromaticity"):
        if cfg == "ITSGraph":
            I = ITSConstruction.ITSGraph(G, H)
        elif cfg == "ITSGraph-balance":
            I = ITSConstruction.ITSGraph(G, H, balance_its=True)
        elif cfg == "construct":
            I = ITSConstruction.construct(G, H, store=True)
        elif cfg == "ITSGraph-ignore-aromaticity":      # only the reported difference changes (|difference| < 1 is reported as 0)
            I = ITSConstruction.ITSGraph(G, H, ignore_aromaticity=True)
        elif cfg == "construct-ignore-aromaticity":
            I = ITSConstruction.construct(G, H, ignore_aromaticity=True)
        elif cfg == "construct-nostore":
            I = ITSConstruction.construct(G, H, store=False)
        else:
            I = ITSConstruction.construct(G, H, balance_its=False)
        dG, dH = its_decompose(I)
        runs.append({"cfg": cfg, "ignore_arom": cfg.endswith("ignore-aromaticity"), "its": chem.its_abs(I, ids), "dG": chem.graph_abs(dG, ids), "dH": chem.graph_abs(dH, ids)})
    if chem.graph_abs(G, ids) != aG or chem.graph_abs(H, ids) != aH:
        raise AssertionError("ITS construction modified its inputs")
    return {"kind": "pair", "G": aG, "H": aH, "runs": runs}


def rsmi_case(inp):
    from synkit.IO.chem_converter import rsmi_to_graph, rsmi_to_its, its_to_rsmi
    from synkit.Graph.ITS.its_decompose import its_decompose
    rsmi = inp["rsmi"]
    r, p = rsmi.split(">>")
    a = chem.rdkit_abs(r)
    b = chem.rdkit_abs(p)
    if a is None or b is None:
        return {"_skip": "unparsable"}
    (G0, idsG), (H0, idsH) = a, b
    if idsG != idsH:
        return {"_skip": "not-fully-mapped-or-unbalanced"}     # precondition of C01, decided from the input
    ids = idsG
    gG, gH = rsmi_to_graph(rsmi)
    if gG is None or gH is None:
        return {"_skip": "not-sanitisable"}
    its = rsmi_to_its(rsmi)
    dG, dH = its_decompose(its)
    back = its_to_rsmi(its)
    case = {"kind": "rsmi", "G": G0, "H": H0, "gG": chem.graph_abs(gG, ids), "gH": chem.graph_abs(gH, ids),
            "its": chem.its_abs(its, ids), "dG": chem.graph_abs(dG, ids), "dH": chem.graph_abs(dH, ids)}
    ok = isinstance(back, str) and ">>" in back
    bG = bH = None
    if ok:
        br, bp = back.split(">>")
        x, y = chem.rdkit_abs(br), chem.rdkit_abs(bp)
        ok = x is not None and y is not None
        if ok:
            def on(ids_all, M, mids):
                pos = {m: k for k, m in enumerate(mids)}
                n = len(ids_all)
                t = [M["t"][pos[v]] if v in pos else [0, 0, 0, 0] for v in ids_all]
                adj = [[M["adj"][pos[u]][pos[v]] if u in pos and v in pos else 0 for v in ids_all] for u in ids_all]
                extra = [m for m in mids if m not in set(ids_all)]
                return {"n": n, "t": t, "adj": adj, "present": [1 if v in pos else 0 for v in ids_all]}, extra
            bG, e1 = on(ids, x[0], x[1])
            bH, e2 = on(ids, y[0], y[1])
            ok = not e1 and not e2
    dummy = {"n": len(ids), "t": [[0, 0, 0, 0]] * len(ids), "adj": [[0] * len(ids) for _ in ids], "present": [0] * len(ids)}
    case.update({"rt_ok": bool(ok), "bG": bG if ok else dummy, "bH": bH if ok else dummy,
                 "unm": {"r_in": chem.unmapped(r), "p_in": chem.unmapped(p),
                         "r_out": chem.unmapped(back.split(">>")[0]) if ok else "", "p_out": chem.unmapped(back.split(">>")[1]) if ok else ""}})
    return case


class S(core.Stage):
    module = "C01Cases"
    shard_size = 2500

    def __init__(self, name, fn, inputs, rule, shard=2500):
        self.name, self.fn, self._inputs, self.nontrivial_rule, self.shard_size = name, fn, inputs, rule, shard

    def inputs(self, ctx):
        return self._inputs

    def execute(self, inp):
        return self.fn(inp)

    def nontrivial(self, c):
        return c["G"] != c["H"]

    def tags(self, c):
        if c["kind"] == "rsmi":
            return ["explicit-H"] if any(t[0] == 1 for t in c["G"]["t"]) else []
        return []


# hand-written mapped reactions with explicit hydrogens: spectator H2, several centre hydrogens on one atom, H2 as reagent
HANDMADE = [
    "[CH3:1][C:2](=[O:3])[OH:4].[CH3:5][O:6][H:7]>>[CH3:1][C:2](=[O:3])[O:6][CH3:5].[H:7][OH:4]",
    "[CH2:1]=[CH2:2].[H:3][H:4]>>[CH2:1]([H:3])[CH2:2][H:4]",
    "[CH3:1][Br:2].[OH-:3].[H:5][H:6]>>[CH3:1][OH:3].[Br-:2].[H:5][H:6]",
    "[CH2:1]=[CH2:2].[H:3][H:4].[H:5][H:6]>>[CH2:1]([H:3])[CH2:2][H:4].[H:5][H:6]",
    "[CH3:1][C:2](=[O:3])[OH:4].[CH3:5][O:6][H:7].[H:8][H:9]>>[CH3:1][C:2](=[O:3])[O:6][CH3:5].[H:7][OH:4].[H:8][H:9]",
    "[CH3:1][CH:2]=[O:3].[H:4][N:5]([H:6])[CH3:7]>>[CH3:1][CH:2]=[N:5][CH3:7].[H:4][O:3][H:6]",
    "[H:1][N:2]([H:3])[CH3:4].[Cl:5][Cl:6].[Cl:7][Cl:8]>>[Cl:5][N:2]([Cl:7])[CH3:4].[H:1][Cl:6].[H:3][Cl:8]",
    "[CH3:1][C:2]#[N:3].[H:4][H:5].[H:6][H:7]>>[CH3:1][C:2]([H:4])([H:6])[N:3]([H:5])[H:7]",
    # free hydrogen atoms (homolysis), and reactions that change atoms only (no bond between mapped atoms changes)
    "[H:1][H:2]>>[H:1].[H:2]",
    "[CH3:1][H:2]>>[CH3:1].[H:2]",
    "[CH3:1][NH2:2].[OH3+:3]>>[CH3:1][NH3+:2].[OH2:3]",
    "[Fe+2:1].[Cu+2:2]>>[Fe+3:1].[Cu+:2]",
    "[cH:1]1[cH:2][cH:3][cH:4][cH:5][n:6]1.[ClH:7]>>[cH:1]1[cH:2][cH:3][cH:4][cH:5][nH+:6]1.[Cl-:7]",
]


def corpus_inputs(rng, k):
    out = []
    for j, s0 in enumerate(HANDMADE):
        for how, s in chem.rewrites(s0, rng, max(k, 4)):
            out.append({"rsmi": s, "src": "handmade:%d" % j, "how": how})
    for r in chem.corpus():
        for how, s in chem.rewrites(r["rsmi"], rng, k):
            out.append({"rsmi": s, "src": r["src"] + ":" + r["id"], "how": how})
    return out


def run(ctx: core.Ctx) -> None:
    ctx.assumptions += ["TLC 1.8 + Json module trusted", "RDKit parses SMILES into atoms and bonds (projection only)",
                        "its_to_rsmi legitimately folds non-centre explicit hydrogens into hcount: equivalence is judged after ITS!FoldEq"]
    q, rng = ctx.quick, ctx.rng
    g2 = core.tlc_generate(ctx, "PairGen", {"N": "2", "NEl": "3", "MaxHc": "1", "MaxCh": "1" if not q else "0", "Orders": "{0,2,4}"}, label="pairs-2-atoms")
    ctx.exhaustive = True
    core.run_stage(ctx, S("all-pairs-2-atoms", pair_case, [{"pair": p, "seed": rng.randrange(10 ** 9)} for p in g2], "G differs from H"))
    g3 = core.tlc_generate(ctx, "PairGen", {"N": "3", "NEl": "2", "MaxHc": "0", "MaxCh": "0", "Orders": "{0,2,4}"}, label="pairs-3-atoms")
    core.run_stage(ctx, S("all-pairs-3-atoms", pair_case, [{"pair": p, "seed": rng.randrange(10 ** 9)} for p in g3], "G differs from H"))
    core.run_stage(ctx, S("random-pairs<=6", pair_case, [{"pair": itslib.random_pair(rng, rng.randint(2, 6)), "seed": rng.randrange(10 ** 9)}
                                                         for _ in range(1500 if q else 40000)], "G differs from H"))
    core.run_stage(ctx, S("corpus-and-rewrites", rsmi_case, corpus_inputs(rng, 2 if q else 12), "reaction changes something", shard=150))


def replay(ctx, data):
    fn = rsmi_case if data["stage"].startswith("corpus") else pair_case
    core.run_stage(ctx, S(data["stage"], fn, [data["input"]], ""))

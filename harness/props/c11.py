"""C11 - automorphism groups and orbits are exact; pruning loses no distinct result."""
from __future__ import annotations

import random
from typing import Any, Dict, List

from harness import core, graphlib as gl

NODE_ATTRS = ["element", "charge"]
EDGE_ATTRS = ["order"]


def aut_case(inp):
    from synkit.Graph.Matcher.automorphism import Automorphism
    from synkit.Graph.Matcher.auto_est import AutoEst
    rng = random.Random(inp["seed"])
    if inp.get("pre") is not None:
        # history: a differently wired look-alike (same node ids, labels, degrees and bond multiset) is analysed first
        n = inp["G"]["n"]
        plain = list(range(1, n + 1))
        P, _ = gl.realise(inp["pre"], rng, ids=plain, shuffle=False)
        Automorphism(P, node_attr_keys=NODE_ATTRS, edge_attr_keys=EDGE_ATTRS).orbits
        AutoEst(P, node_attrs=NODE_ATTRS, edge_attrs=EDGE_ATTRS).fit()
        G, ids = gl.realise(inp["G"], rng, ids=plain, shuffle=False)
    else:
        G, ids = gl.realise(inp["G"], rng)
    snap = gl.snapshot(G)
    a, _ = gl.project(G, NODE_ATTRS, EDGE_ATTRS, gl.Coder(), ids=ids, hcount=False)
    idx = {v: k + 1 for k, v in enumerate(ids)}
    A = Automorphism(G, node_attr_keys=NODE_ATTRS, edge_attr_keys=EDGE_ATTRS)
    orbits = [sorted(idx[v] for v in o) for o in A.orbits]
    naut = int(A.n_automorphisms)
    E = AutoEst(G, node_attrs=NODE_ATTRS, edge_attrs=EDGE_ATTRS).fit()
    est = [sorted(idx[v] for v in o) for o in E.orbits]
    if gl.snapshot(G) != snap:
        raise AssertionError("analysis modified the graph")
    return {"kind": "aut", "G": a, "naut": naut, "orbits": orbits, "est": est}


def dedup_case(inp):
    from synkit.Graph.Matcher.subgraph_matcher import SubgraphSearchEngine as SE
    from synkit.Graph.Matcher.auto_est import AutoEst
    from synkit.Graph.Matcher.automorphism import Automorphism
    from synkit.Graph.Matcher.dedup_matches import deduplicate_matches_with_anchor
    rng = random.Random(inp["seed"])
    P, pids = gl.realise(inp["P"], rng, shuffle=False)
    H, hids = gl.realise(inp["H"], rng, shuffle=False)
    ms = SE.find_subgraph_mappings(H, P, node_attrs=NODE_ATTRS, edge_attrs=EDGE_ATTRS, strategy=inp["strategy"], strict_cc_count=False)
    rng.shuffle(ms)
    if inp.get("partial"):      # the function documents support for partial matches
        ms = [{p: h for p, h in m.items() if rng.random() < 0.8} or dict(m) for m in ms]
    kw = {}
    if inp["use_pattern"]:
        e = AutoEst(P, node_attrs=NODE_ATTRS, edge_attrs=EDGE_ATTRS).fit()
        kw["pattern_orbits"] = e.orbits
        if inp["anchor"]:
            kw["pattern_anchor"] = e.anchor_component
    if inp["use_host"]:
        kw["host_orbits"] = Automorphism(H, node_attr_keys=NODE_ATTRS, edge_attr_keys=EDGE_ATTRS).orbits
    before = [dict(m) for m in ms]
    out = deduplicate_matches_with_anchor(ms, **kw)

    def enc(m):
        return sorted([int(p), int(h)] for p, h in m.items())
    inp_enc = [enc(m) for m in before]
    return {"kind": "dedup", "inp": inp_enc, "out": [enc(m) for m in out],
            "distinct_in": len({core.cj(x) for x in inp_enc}) == len(inp_enc)}


class S(core.Stage):
    module = "C11Cases"
    shard_size = 1500

    def __init__(self, name, fn, inputs, rule):
        self.name, self.fn, self._inputs, self.nontrivial_rule = name, fn, inputs, rule

    def inputs(self, ctx):
        return self._inputs

    def execute(self, inp):
        return self.fn(inp)

    def nontrivial(self, c):
        if c["kind"] == "aut":
            return c["naut"] > 1
        return len(c["out"]) < len(c["inp"])

    def tags(self, c):
        if c["kind"] == "aut":
            t = ["naut>1"] if c["naut"] > 1 else []
            if len(c["est"]) < len(c["orbits"]):
                t.append("estimate-strictly-coarser")
            return t
        return ["pruned"] if len(c["out"]) < len(c["inp"]) else []


def two_switch(g, rng):
    """bonds a-b, c-d replaced by a-d, c-b (orders kept): same degrees, labels and bond multiset, other wiring"""
    n = g["n"]
    es = [(u, v) for u in range(n) for v in range(u + 1, n) if g["adj"][u][v]]
    rng.shuffle(es)
    for (a, b) in es:
        for (c, d) in es:
            if len({a, b, c, d}) == 4 and not g["adj"][a][d] and not g["adj"][c][b] and g["lab"][b] == g["lab"][d]:
                adj = [list(r) for r in g["adj"]]
                o1, o2 = adj[a][b], adj[c][d]
                adj[a][b] = adj[b][a] = adj[c][d] = adj[d][c] = 0
                adj[a][d] = adj[d][a] = o1
                adj[c][b] = adj[b][c] = o2
                return {"n": n, "lab": list(g["lab"]), "hc": list(g["hc"]), "adj": adj}
    return None


def symmetric(rng) -> List[Any]:
    from harness.props.c08 import cyc, from_nx
    import networkx as nx
    gs = [cyc(n) for n in range(3, 9)] + [from_nx(nx.complete_bipartite_graph(2, 3)), from_nx(nx.complete_bipartite_graph(3, 3)),
                                          from_nx(nx.hypercube_graph(3)), from_nx(nx.star_graph(5)), from_nx(nx.complete_graph(4)),
                                          gl.disjoint_union(cyc(3), cyc(3)), gl.disjoint_union(cyc(3), cyc(4)), gl.disjoint_union(cyc(6), gl.disjoint_union(cyc(3), cyc(3)))]
    return [{"G": gl.permuted(g, rng), "seed": rng.randrange(10 ** 9)} for g in gs for _ in range(2)]


def run(ctx: core.Ctx) -> None:
    ctx.assumptions += ["TLC 1.8 + Json module trusted", "labels: element and charge; bonds: order",
                        "for disconnected graphs the count is the product over components and orbits are per component (component swaps excluded, as documented)",
                        "the clause 'symmetry pruning during rule application loses no distinct reaction' uses the rule-application machinery of C05 (C05Cases.tla, claim C11)"]
    q, rng = ctx.quick, ctx.rng
    base = {"NLab": "3", "MaxHc": "0", "MaxOrd": "2", "CanonOnly": "TRUE", "MinN": "1"}
    g4 = core.tlc_generate(ctx, "GraphGen", dict(base, MaxN="4" if not q else "3"), label="graphs<=4" if not q else "graphs<=3")
    ctx.exhaustive = True
    core.run_stage(ctx, S("all-graphs", aut_case, [{"G": g, "seed": rng.randrange(10 ** 9)} for g in g4], "|Aut| > 1"))
    if q:
        g4b = core.tlc_generate(ctx, "GraphGen", {"MaxN": "4", "NLab": "2", "MaxHc": "0", "MaxOrd": "2", "CanonOnly": "TRUE", "MinN": "4"}, label="graphs=4")
        core.run_stage(ctx, S("graphs=4", aut_case, [{"G": g, "seed": rng.randrange(10 ** 9)} for g in g4b], "|Aut| > 1"))
    else:
        g5 = core.tlc_generate(ctx, "GraphGen", {"MaxN": "5", "NLab": "2", "MaxHc": "0", "MaxOrd": "1", "CanonOnly": "TRUE", "MinN": "5"}, label="graphs=5")
        core.run_stage(ctx, S("graphs=5", aut_case, [{"G": g, "seed": rng.randrange(10 ** 9)} for g in g5], "|Aut| > 1"))
    core.run_stage(ctx, S("symmetric-families", aut_case, symmetric(rng), "|Aut| > 1"))
    rnd = []
    for _ in range(600 if q else 15000):
        n = rng.randint(3, 9)
        if rng.random() < 0.35:
            a = gl.random_graph(rng, rng.randint(2, n - 1), nlab=2, maxhc=0, connected=True)
            b = gl.permuted(a, rng) if rng.random() < 0.5 else gl.random_graph(rng, max(1, n - a["n"]), nlab=2, maxhc=0, connected=True)
            g = gl.disjoint_union(a, b)
            if g["n"] > 9:
                g = a
        else:
            g = gl.random_graph(rng, n, nlab=2, maxhc=0, p=0.25, connected=True)
        rnd.append({"G": g, "seed": rng.randrange(10 ** 9)})
    core.run_stage(ctx, S("random<=9", aut_case, rnd, "|Aut| > 1"))
    hist = []
    for c in rnd + [{"G": x["G"]} for x in symmetric(rng)]:
        sw = two_switch(c["G"], rng)
        if sw is not None:
            hist.append({"G": c["G"], "pre": sw, "seed": rng.randrange(10 ** 9)})
    core.run_stage(ctx, S("after-a-rewired-look-alike-on-the-same-node-ids", aut_case, hist, "|Aut| > 1"))
    dd = []
    for _ in range(800 if q else 20000):
        H = gl.random_graph(rng, rng.randint(4, 9), nlab=2, maxhc=0, p=0.3, connected=rng.random() < 0.6)
        if rng.random() < 0.6:
            k = rng.randint(1, min(4, H["n"]))
            P = gl.permuted(gl.induced(H, rng.sample(range(H["n"]), k)), rng)
        else:
            P = gl.random_graph(rng, rng.randint(1, 3), nlab=2, maxhc=0)
        dd.append({"P": P, "H": H, "strategy": rng.choice(["all", "comp"]), "use_pattern": rng.random() < 0.7,
                   "anchor": rng.random() < 0.6, "use_host": rng.random() < 0.5, "partial": rng.random() < 0.2, "seed": rng.randrange(10 ** 9)})
    core.run_stage(ctx, S("dedup-on-search-results", dedup_case, dd, "something was pruned"))
    # symmetry pruning during rule application versus applying the rule at every raw match (machinery of C05)
    from harness.props import c05
    inputs = c05.make_inputs(rng, "C11", 1 if q else 3, 60 if q else 300, 250 if q else 4000)
    core.run_stage(ctx, c05.S("pruned-versus-every-raw-match", inputs))
    # the optional exact pruning (SynReactor(automorphism=True)) on the textbook templates and a sample of the others
    exact = [dict(i, exact=True) for i in inputs if i["nvar"] != 2] + [dict(i, exact=True) for i in rng.sample([i for i in inputs if i["nvar"] == 2], 60 if q else 1500)]
    core.run_stage(ctx, c05.S("exact-pruning-versus-every-raw-match", exact))


def replay(ctx, data):
    if "pruning-versus" in data["stage"] or data["stage"].startswith("pruned-versus"):
        from harness.props import c05
        return core.run_stage(ctx, c05.S(data["stage"], [data["input"]]))
    fn = dedup_case if data["stage"].startswith("dedup") else aut_case
    core.run_stage(ctx, S(data["stage"], fn, [data["input"]], ""))

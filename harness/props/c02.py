"""C02 - the reaction centre is exactly the set of changed bonds; the context grows monotonically."""
from __future__ import annotations

import random
from typing import Any, Dict, List

import networkx as nx

from harness import chem, core, itslib


def _analyse(its, ids, its_ren, ids_ren):
    from synkit.Graph.ITS.its_decompose import get_rc
    from synkit.Graph.Context.radius_expand import RadiusExpand
    before = chem.its_abs(its, ids)
    rc = get_rc(its)
    rc2 = get_rc(rc)
    ctx = [RadiusExpand.extract_k(its, k) for k in range(4)]
    ren = get_rc(its_ren)
    # history: a renumbered COPY DERIVED FROM THE SAME OBJECT (graph-level attributes travel with it), asked for its contexts
    # after the original was; mapped back to the original atoms they must be the same contexts
    import networkx as nx
    der = nx.relabel_nodes(its, dict(zip(ids, ids_ren)), copy=True)
    back = {w: v for v, w in zip(ids, ids_ren)}
    try:
        dctx = [chem.sub_abs(nx.relabel_nodes(RadiusExpand.extract_k(der, k), back, copy=True), ids) for k in range(4)]
    except Exception:
        dctx = [{"nodes": [], "t": [], "edges": [], "top": []} for _ in range(4)]
    case = {"its": before, "rc": chem.sub_abs(rc, ids), "rc2": chem.sub_abs(rc2, ids),
            "ctx": [chem.sub_abs(c, ids) for c in ctx], "ren": chem.sub_abs(ren, ids_ren), "dctx": dctx}
    if chem.its_abs(its, ids) != before:
        raise AssertionError("centre/context extraction modified the ITS")
    return case


def pair_case(inp):
    from synkit.Graph.ITS.its_construction import ITSConstruction
    rng = random.Random(inp["seed"])
    G, H, ids = itslib.realise_pair(inp["pair"], rng)
    # the same reaction with renumbered atoms (and a different object history)
    new = rng.sample(range(100, 100 + 3 * len(ids) + 5), len(ids))
    G2, H2, _ = itslib.realise_pair(inp["pair"], rng, ids=new)
    if inp.get("unbalanced"):
        # an atom that exists on one side only (the ITS stores a placeholder on the other side): drop atoms without bonds on that side
        for k, (v, w) in enumerate(zip(ids, new)):
            side = (G, G2) if k % 2 == 0 else (H, H2)
            if side[0].degree(v) == 0 and rng.random() < 0.6:
                side[0].remove_node(v)
                side[1].remove_node(w)
    its = ITSConstruction.ITSGraph(G, H)
    its2 = ITSConstruction.ITSGraph(G2, H2)
    return _analyse(its, ids, its2, new)


def rsmi_case(inp):
    from synkit.IO.chem_converter import rsmi_to_its
    rsmi = inp["rsmi"]
    rng = random.Random(inp["seed"])
    try:
        its = rsmi_to_its(rsmi)
    except Exception:
        return {"_skip": "no-ITS-for-this-reaction"}
    if its is None or its.number_of_nodes() == 0:
        return {"_skip": "no-ITS-for-this-reaction"}
    ids = sorted(its.nodes())
    ren, pi = chem.renumber_aam(rsmi, rng)
    if rng.random() < 0.5:
        ren = chem.reroot(ren, rng)
    its2 = rsmi_to_its(ren)
    if set(its2.nodes()) != {pi[v] for v in ids if v in pi} or len(pi) < len(ids):
        return {"_skip": "atoms-without-map-numbers"}
    return _analyse(its, ids, its2, [pi[v] for v in ids])


class S(core.Stage):
    module = "C02Cases"

    def __init__(self, name, fn, inputs, shard=2000):
        self.name, self.fn, self._inputs, self.shard_size = name, fn, inputs, shard
        self.nontrivial_rule = "non-empty centre that is smaller than the ITS"

    def inputs(self, ctx):
        return self._inputs

    def execute(self, inp):
        return self.fn(inp)

    def nontrivial(self, c):
        return 0 < len(c["rc"]["nodes"]) < c["its"]["n"]

    def tags(self, c):
        t = []
        if any(e[2] == e[3] for e in c["rc"]["edges"]):
            t.append("unchanged-H-H-bond-kept")
        if len(c["ctx"][1]["nodes"]) > len(c["ctx"][0]["nodes"]):
            t.append("context-grows")
        return t


def hh_pairs(rng, n):
    """pairs containing hydrogen-hydrogen bonds (kept in the centre even when unchanged)"""
    out = []
    for _ in range(n):
        p = itslib.random_pair(rng, rng.randint(3, 6))
        k = p["G"]["n"]
        a, b = rng.sample(range(k), 2)
        for M in (p["G"], p["H"]):
            M["t"][a][0] = M["t"][b][0] = 1
        o = rng.choice([2, 2, 0])
        p["G"]["adj"][a][b] = p["G"]["adj"][b][a] = 2
        p["H"]["adj"][a][b] = p["H"]["adj"][b][a] = o
        out.append(p)
    return out


def run(ctx: core.Ctx) -> None:
    ctx.assumptions += ["TLC 1.8 + Json module trusted", "disconnected=True, keep_mtg and n_knn=-1 are outside the statement and not exercised"]
    q, rng = ctx.quick, ctx.rng
    g2 = core.tlc_generate(ctx, "PairGen", {"N": "2", "NEl": "3", "MaxHc": "0", "MaxCh": "0", "Orders": "{0,2,4}"}, label="pairs-2-atoms")
    g3 = core.tlc_generate(ctx, "PairGen", {"N": "3", "NEl": "2", "MaxHc": "0", "MaxCh": "0", "Orders": "{0,2,4}"}, label="pairs-3-atoms")
    ctx.exhaustive = True
    core.run_stage(ctx, S("all-pairs<=3-atoms", pair_case, [{"pair": p, "seed": rng.randrange(10 ** 9)} for p in g2 + g3]))
    rp = [itslib.random_pair(rng, rng.randint(3, 8)) for _ in range(1200 if q else 30000)] + hh_pairs(rng, 300 if q else 6000)
    core.run_stage(ctx, S("random-pairs<=8", pair_case, [{"pair": p, "seed": rng.randrange(10 ** 9)} for p in rp]))
    # ITS graphs of unbalanced pairs: atoms present on one side only
    ub = g3 + [itslib.random_pair(rng, rng.randint(3, 7)) for _ in range(600 if q else 15000)]
    core.run_stage(ctx, S("pairs-with-atoms-on-one-side-only", pair_case, [{"pair": p, "seed": rng.randrange(10 ** 9), "unbalanced": True} for p in ub]))
    cx = []
    for r in chem.corpus():
        for how, s in chem.rewrites(r["rsmi"], rng, 1 if q else 8):
            cx.append({"rsmi": s, "how": how, "seed": rng.randrange(10 ** 9)})
    core.run_stage(ctx, S("corpus-and-rewrites", rsmi_case, cx, shard=120))


def replay(ctx, data):
    fn = rsmi_case if data["stage"].startswith("corpus") else pair_case
    core.run_stage(ctx, S(data["stage"], fn, [data["input"]]))

"""C04 - applying a reaction's own template regenerates it, forwards and backwards."""
from __future__ import annotations

import random
from typing import Any, Dict, List

from harness import chem, core, reactlib


def own_case(inp):
    from synkit.IO.chem_converter import rsmi_to_its
    from synkit.Graph.ITS.its_decompose import get_rc
    rsmi = inp["rsmi"]
    r, p = rsmi.split(">>")
    a, b = chem.rdkit_abs(r), chem.rdkit_abs(p)
    if a is None or b is None or a[1] != b[1] or not a[1]:
        return {"_skip": "not-fully-mapped-or-unbalanced"}
    its = rsmi_to_its(rsmi)
    rc = get_rc(its)
    tpl = rc if inp["centre"] else its
    mode = reactlib.rule_mode(rc)
    if mode == "implicit" and inp["render_h"]:
        mode = "rendered"
    want = {"r": chem.unmapped(r), "p": chem.unmapped(p)}
    substrate = reactlib.unmapped_side(p if inp["invert"] else r)
    got, raw, pm = [], [], {}
    try:
        R = reactlib.make_reactor(substrate, tpl, invert=inp["invert"], strategy=inp["strategy"], mode=mode)
        got = reactlib.reaction_keys(R.smarts_list)
        if not any(g == want for g in got):
            # diagnosis only: would the reaction be regenerated if the rule were applied at every raw match?
            R2, _ = reactlib.raw_reactor(R, substrate, tpl, invert=inp["invert"], strategy=inp["strategy"], mode=mode)
            raw = reactlib.reaction_keys(R2.smarts_list)
            if any(g == want for g in raw):
                pm = reactlib.prune_model(R, substrate, tpl, invert=inp["invert"], strategy=inp["strategy"], mode=mode, keyfn=reactlib.reaction_keys) or {}
    except Exception as e:
        err = type(e).__name__
    what = "%s,%s,%s,%s" % ("backward" if inp["invert"] else "forward", "centre" if inp["centre"] else "full-its", inp["strategy"], mode)
    return {"G": a[0], "H": b[0], "mode": mode, "want": want, "got": got, "raw": raw, "model": pm, "what": what, "strategy": inp["strategy"], "invert": bool(inp["invert"]), "full": not inp["centre"]}


class S(core.Stage):
    module = "C04Cases"
    shard_size = 120
    exec_time_limit = 90     # a full-ITS template with a symmetric spectator part is re-matched once per automorphism

    def __init__(self, name, inputs):
        self.name, self._inputs = name, inputs
        self.nontrivial_rule = "application that returns >= 2 reactions"

    def inputs(self, ctx):
        return self._inputs

    def execute(self, inp):
        return own_case(inp)

    def nontrivial(self, c):
        return len(c["got"]) >= 2

    def tags(self, c):
        return [c["mode"], c["what"].split(",")[0]]


def inputs_for(rsmi, rng, how, full: bool):
    out = []
    combos = [(inv, cen, st, ren) for inv in (False, True) for cen in (True, False) for st in ("all", "comp", "bt") for ren in (False,)]
    if not full:
        combos = rng.sample(combos, 4)
    for inv, cen, st, ren in combos:
        out.append({"rsmi": rsmi, "invert": inv, "centre": cen, "strategy": st, "render_h": ren, "how": how})
    return out


def run(ctx: core.Ctx) -> None:
    ctx.assumptions += ["TLC 1.8 + Json module trusted", "RDKit canonical SMILES without atom maps and stereo identify a reaction's sides (projection only)",
                        "preconditions (balanced, fully mapped, centre hydrogens all explicit or none) are decided by the spec from the reaction's ITS"]
    q, rng = ctx.quick, ctx.rng
    inp = []
    for t in reactlib.textbook():
        for how, s in chem.rewrites(t["rsmi"], rng, 4 if q else 12):
            if how != "reverse":
                inp += inputs_for(s, rng, "textbook:" + how, True)
    core.run_stage(ctx, S("textbook-own-templates", inp))
    tpls = [t for t in reactlib.templates() if t["natoms"] <= 60]
    inp = []
    for t in (rng.sample(tpls, 70) if q else tpls):
        for how, s in chem.rewrites(t["rsmi"], rng, 1 if q else 5):
            if how != "reverse":
                inp += inputs_for(s, rng, how, not q)
    core.run_stage(ctx, S("corpus-own-templates", inp))


def replay(ctx, data):
    core.run_stage(ctx, S(data["stage"], [data["input"]]))

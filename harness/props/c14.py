"""C14 - batching, parallelism and caching are operational only: results never change."""
from __future__ import annotations

import random
from typing import Any, Dict, List

from harness import chem, core, expansion, reactlib

# look-alikes: same skeleton, different charge / hydrogen count
LOOKALIKES = ["CC(=O)O.CO", "CC(=O)[O-].CO", "CC(=O)O.C[O-]", "CBr.[OH-]", "CBr.O", "CC=O.CN", "CC=O.C[NH3+]", "CC=O.C[NH-]", "CCO.CC(=O)O", "CC[O-].CC(=O)O"]
SUBSTRATES = ["CC=O.CC=O", "CCC=O.CC=O", "CC=O.CC(C)=O", "CC(=O)O.CO", "CCC(=O)O.CO", "CC(=O)O.CCO", "CC=O.CN", "CCC=O.CN",
              "C=CC=C.C=C", "C=CC(C)=C.C=C", "CBr.[OH-]", "CCBr.[OH-]", "C1CO1.O", "CC1CO1.O", "CC(=O)OC.CCO", "C=CC(C)=O.CS"]


def batch_case(inp):
    """one process-local BatchReactor per configuration; solo reference = SynReactor on each entry alone"""
    from synkit.Synthesis.Reactor.batch_reactor import BatchReactor
    from synkit.Synthesis.Reactor.syn_reactor import SynReactor
    from synkit.IO.chem_converter import rsmi_to_its
    rules = inp["rules"]
    rule_graphs = [rsmi_to_its(r, core=True) for r in rules]
    entries = inp["entries"]
    solo_cache: Dict[str, List[List[str]]] = {}
    ents = []
    for s in entries:
        if s not in solo_cache:
            per = []
            for rg in rule_graphs:
                try:
                    per.append(list(SynReactor(s, rg, invert=inp["invert"], strategy=inp["strategy"], explicit_h=False, implicit_temp=True).smarts_list))
                except Exception:
                    per.append([])
            solo_cache[s] = per
        ents.append({"solo": solo_cache[s]})
    runs = []
    for cfg in inp["cfgs"]:
        br = BatchReactor(list(entries), strategy=inp["strategy"], explicit_h=False, implicit_temp=True, enable_logging=False,
                          cache_enabled=cfg["cache"], cache_maxsize=cfg["maxsize"], entry_n_jobs=cfg["jobs"],
                          rule_n_jobs=cfg.get("rule_jobs", 1), parallel_rules=bool(cfg.get("parallel_rules", False)),
                          allow_nested=bool(cfg.get("nested", False)))
        out = br.fit(rule_graphs, invert=inp["invert"])
        key = "syn_bw" if inp["invert"] else "syn_fw"
        runs.append({"cfg": "cache=%s,maxsize=%d,jobs=%d,rule_jobs=%d,parallel_rules=%s" % (cfg["cache"], cfg["maxsize"], cfg["jobs"], cfg.get("rule_jobs", 1), bool(cfg.get("parallel_rules", False))),
                     "out": [list(o.get(key, [])) for o in out]})
    return {"kind": "batch", "entries": ents, "runs": runs}


def same_case(inp):
    if inp["what"] == "aam-validation":
        from synkit.Chem.Reaction.aam_validator import AAMValidator
        data = inp["data"]
        kw = dict(ground_truth_col="gt", mapped_cols=["m1", "m2"], check_method=inp.get("method", "RC"),
                  ignore_aromaticity=inp.get("ignore_aromaticity", False), ignore_tautomers=inp.get("ignore_tautomers", True))
        a = AAMValidator.validate_smiles(data, n_jobs=1, **kw)
        b = AAMValidator.validate_smiles(data, n_jobs=4, **kw)
        f = lambda res: [[str(x["mapper"]), [bool(v) for v in x["results"]]] for x in res]
        return {"kind": "same", "what": inp["what"], "a": f(a), "b": f(b)}
    if inp["what"] == "balance-check":
        from synkit.Chem.Reaction.balance_check import BalanceReactionCheck
        data = inp["data"]
        f = lambda t: [[[str(d.get("row", "")), str(d["reactions"]), bool(d["balanced"])] for d in part] for part in t]
        a = BalanceReactionCheck(n_jobs=1).dicts_balance_check(data, rsmi_column="reactions")
        b = BalanceReactionCheck(n_jobs=4).dicts_balance_check(data, rsmi_column="reactions")
        return {"kind": "same", "what": inp["what"], "a": f(a), "b": f(b)}
    if inp["what"] == "network-expansion":
        from synkit.CRN.DAG.syncrn import SynCRN

        def canon(g):
            species = sorted(str(d.get("smiles_nomap")) for _, d in g.nodes(data=True) if d.get("kind") == "species")
            ev = []
            for n, d in g.nodes(data=True):
                if d.get("kind") != "rxn":
                    continue
                r = sorted(str(g.nodes[u].get("smiles_nomap")) for u in g.predecessors(n))
                p = sorted(str(g.nodes[v].get("smiles_nomap")) for v in g.successors(n))
                ev.append([int(d.get("step", 0)), int(d.get("rule_index", 0)), r, p])
            return [species, sorted(ev)]
        a = canon(SynCRN(rules=list(inp["rules"]), repeats=inp["repeats"]).build(list(inp["seeds"]), parallel=False))
        b = canon(SynCRN(rules=list(inp["rules"]), repeats=inp["repeats"]).build(list(inp["seeds"]), parallel=True, max_workers=inp["workers"]))
        if not a[1]:
            return {"_skip": "expansion-produced-no-reaction"}
        return {"kind": "same", "what": inp["what"] + "(workers=%d)" % inp["workers"], "a": a, "b": b}
    raise core.MachineryError(inp["what"])


class S(core.Stage):
    module = "C14Cases"
    shard_size = 8
    parallel_exec = False      # the code under test starts its own worker processes

    def __init__(self, name, fn, inputs):
        self.name, self.fn, self._inputs = name, fn, inputs
        self.nontrivial_rule = "batch with repeated or look-alike substrates and at least one non-empty result"

    def inputs(self, ctx):
        return self._inputs

    def execute(self, inp):
        return self.fn(inp)

    def nontrivial(self, c):
        return c["kind"] == "same" or any(any(x for x in e["solo"]) for e in c["entries"])

    def tags(self, c):
        if c["kind"] == "batch":
            return ["non-empty-results"] if any(any(x for x in e["solo"]) for e in c["entries"]) else []
        return [c["what"]]


# ------------------------------------------------------------------ network expansion as a state machine (Expansion.tla)
MC_BASE = {"NSpecies": "3", "ArityCode": "12", "MaxComp": "3", "UseFrontier": "TRUE", "CapMix": "1000", "CapTasks": "1000",
           "SkipNoChange": "TRUE", "AllowEmpty": "FALSE", "DedupDelta": "TRUE", "DedupAcross": "FALSE", "Repeats": "4",
           "MaxSeeds": "2", "RichMenu": "FALSE"}


def mc_cfg(d):
    b = lambda x: x == "TRUE"
    return {"arity": [int(c) for c in d["ArityCode"]], "maxComp": int(d["MaxComp"]), "useFrontier": b(d["UseFrontier"]), "capMix": int(d["CapMix"]),
            "capTasks": int(d["CapTasks"]), "skipNoChange": b(d["SkipNoChange"]), "allowEmpty": b(d["AllowEmpty"]), "dedupDelta": b(d["DedupDelta"]),
            "dedupAcross": b(d["DedupAcross"]), "repeats": int(d["Repeats"])}


def replay_case(inp):
    """spec -> code: a finished behaviour of MC_Expansion (TLC chose the chemistry) run through the real SynCRN"""
    modes = [("serial", False, None)] + ([("parallel-%d" % inp["workers"], True, inp["workers"])] if inp.get("workers") else [])
    return expansion.replay_behaviour(inp["beh"], inp["cfg"], modes=modes)


def history_case(inp):
    """code -> spec: the real chemistry; the same build recorded serially and with worker processes"""
    logs, crn = [], None
    for mode, par, w in [("serial", False, None)] + [("parallel-%d" % w, True, w) for w in inp["workers"]]:
        crn, log = expansion.record_build(inp["rules"], inp["seeds"], parallel=par, workers=w, flat={}, **inp["kw"])
        logs.append((mode, log))
    runs = expansion.project_runs(logs)
    if not any(s["ran"] and len(s["post"]["nodes"]) > len(runs[0]["init"]["nodes"]) for s in runs[0]["steps"]):
        return {"_skip": "expansion-produced-nothing"}
    return {"cfg": expansion.cfg_of(crn, [expansion.lhs_arity(r) for r in inp["rules"]]), "runs": runs}


class X(core.Stage):
    module = "ExpansionTrace"
    shard_size = 40
    tlc_heap = "4g"
    nontrivial_rule = "build that records at least one reaction"

    def __init__(self, name, fn, inputs, parallel_exec):
        self.name, self.fn, self._inputs, self.parallel_exec = name, fn, inputs, parallel_exec

    def inputs(self, ctx):
        return self._inputs

    def execute(self, inp):
        return self.fn(inp)

    def nontrivial(self, c):
        return any(n["kind"] == "e" for s in c["runs"][0]["steps"] for n in s["post"]["nodes"])

    def tags(self, c):
        t = ["runs=%d" % len(c["runs"]), "steps=%d" % len(c["runs"][0]["steps"])]
        if "expect" in c:
            t.append("model-behaviour")
        return t


def batches(rng, n_batches, size, quick):
    tb = [t["rsmi"] for t in reactlib.textbook() if "explicit" not in t["name"]]
    out = []
    for _ in range(n_batches):
        pool = rng.sample(SUBSTRATES, rng.randint(3, 6)) + rng.sample(LOOKALIKES, rng.randint(2, 5))
        entries = [rng.choice(pool) for _ in range(size)]          # many repeats of few look-alike substrates: addresses get recycled
        cfgs = [{"cache": True, "maxsize": 32768, "jobs": 1}, {"cache": False, "maxsize": 32768, "jobs": 1},
                {"cache": True, "maxsize": rng.choice([1, 2, 3]), "jobs": 1}, {"cache": True, "maxsize": 32768, "jobs": rng.choice([2, 3, 4] if quick else [2, 4, 8])},
                {"cache": True, "maxsize": 32768, "jobs": 1, "rule_jobs": rng.choice([2, 3]), "parallel_rules": True}]
        rules = rng.sample(tb, rng.randint(1, 3))
        if rng.random() < 0.5:
            rules.append(rng.choice(rules))        # the same rule twice: its results must still be reported once
        out.append({"rules": rules, "entries": entries, "invert": False, "strategy": rng.choice(["all", "comp", "bt"]),
                    "cfgs": cfgs})
    return out


def run(ctx: core.Ctx) -> None:
    ctx.assumptions += ["TLC 1.8 + Json module trusted", "result lists are compared as sets of reaction strings per entry",
                        "re-use of object addresses is left to CPython's allocator; batches repeat a few look-alike substrates hundreds of times to provoke it",
                        "batched clustering versus one-shot clustering is decided in the C13 check (every batch size must give the isomorphism partition)"]
    q, rng = ctx.quick, ctx.rng
    d = {"Addrs": "{1,2}", "Contents": "{10,20,30}", "Cap": "1", "MaxOps": "6" if q else "8"}
    core.model_check(ctx, "Batch", defines=dict(d, Pin="TRUE"), label="Batch-cache-pins-its-keys")
    core.model_check(ctx, "Batch", defines=dict(d, Cap="2", Pin="TRUE"), label="Batch-cache-pins-its-keys-cap2")
    core.model_check(ctx, "Batch", defines=dict(d, Pin="FALSE"), label="Batch-cache-keyed-by-bare-address", expect_violation=True)
    # unbounded: an inductive invariant of the pinned cache (any number of operations), and its failure without pinning
    core.apalache_inductive(ctx, "MC_BatchApa", label="Batch-pinned-cache-inductive-invariant")
    core.apalache_inductive(ctx, "MC_BatchApaNoPin", label="Batch-bare-address-cache-not-inductive", expect_step_failure=True)
    core.run_stage(ctx, S("batch-versus-alone", batch_case, batches(rng, 6 if q else 60, 150 if q else 400, q)))
    rx = [r["rsmi"] for r in chem.corpus()]
    same = []
    for _ in range(2 if q else 10):
        sample = rng.sample(rx, 24)
        data = []
        for s in sample:
            m1, _ = chem.renumber_aam(s, rng)
            bad = rng.choice(sample)
            data.append({"gt": s, "m1": m1, "m2": bad})
        # records whose verdict depends on the tautomer / aromaticity flags (carboxylic oxygens exchanged)
        data.append({"gt": "[CH3:1][C:2](=[O:3])[OH:4].[CH3:5][CH2:6][OH:7]>>[CH3:1][C:2](=[O:3])[O:7][CH2:6][CH3:5].[OH2:4]",
                     "m1": "[CH3:1][C:2](=[O:3])[OH:4].[CH3:5][CH2:6][OH:7]>>[CH3:1][C:2](=[O:4])[O:7][CH2:6][CH3:5].[OH2:3]",
                     "m2": "[CH3:1][C:2](=[O:3])[OH:4].[CH3:5][CH2:6][OH:7]>>[CH3:1][C:2](=[O:3])[O:7][CH2:6][CH3:5].[OH2:4]"})
        data.append({"gt": "[CH3:1][C:2](=[O:3])[OH:4].[CH3:5][OH:6]>>[CH3:1][C:2](=[O:3])[O:6][CH3:5].[OH2:4]",
                     "m1": "[CH3:1][C:2](=[O:3])[OH:4].[CH3:5][OH:6]>>[CH3:1][C:2](=[O:4])[O:6][CH3:5].[OH2:3]",
                     "m2": "[CH3:5][C:1](=[O:2])[OH:3].[CH3:6][OH:4]>>[CH3:5][C:1](=[O:2])[O:4][CH3:6].[OH2:3]"})
        small = data[-2:] + [{"gt": t, "m1": chem.renumber_aam(t, rng)[0], "m2": t} for t in
                             ("[CH3:1][CH:2]=[O:3].[CH3:4][NH2:5]>>[CH3:1][CH:2]=[N:5][CH3:4].[OH2:3]", "[CH3:1][Br:2].[OH-:3]>>[CH3:1][OH:3].[Br-:2]")]
        for ia in (False, True):
            same.append({"what": "aam-validation", "data": data, "ignore_aromaticity": ia, "ignore_tautomers": True, "method": rng.choice(["RC", "ITS"])})
            same.append({"what": "aam-validation", "data": small, "ignore_aromaticity": ia, "ignore_tautomers": False, "method": "RC"})
        bal = [{"reactions": s} for s in sample] + [{"reactions": s.split(">>")[0] + ">>" + s.split(">>")[1].split(".")[0]} for s in sample[:8]]
        bal += [dict(rng.choice(bal)) for _ in range(10)]           # the same reaction in several rows ...
        bal = [dict(d, row="row%d" % k) for k, d in enumerate(bal)]  # ... each row with its own other fields
        same.append({"what": "balance-check", "data": bal})
    tb = {t["name"]: t["rsmi"] for t in reactlib.textbook()}
    nets = [([tb["esterification-explicit-H"], tb["imine-formation-explicit-H"]], ["CCO", "CC(=O)O", "CO", "CN", "CC=O", "OCCO"]),
            ([tb["imine-formation-explicit-H"], tb["esterification-explicit-H"], tb["aldol-condensation-explicit-H"]], ["CC=O", "CN", "CC(=O)O", "CO", "NCCO"]),
            ([tb["imine-formation-explicit-H"]], ["CC=O", "CN", "NCCN", "CCC=O", "O=CC=O"]),
            ([tb["esterification-explicit-H"], tb["hbr-addition-explicit-H"]], ["CCO", "CC(=O)O", "CO", "OCCO", "CC=CC", "Br", "CCC(=O)O"])]
    for rules, seeds in nets:
        seeds = list(seeds)
        rng.shuffle(seeds)
        for w in ((2, 3, 4, 7) if q else (2, 3, 4, 5, 6, 7, 8)):
            same.append({"what": "network-expansion", "rules": rules, "seeds": seeds, "repeats": 2, "workers": w})
    core.run_stage(ctx, S("serial-versus-parallel", same_case, same))
    # batched clustering versus one-shot clustering (machinery of C13: every batch size must give the isomorphism partition)
    from harness.props import c13
    cl = []
    for _ in range(120 if q else 2500):
        cl.append({"lib": rng.choice([[], [], [{"cls": 4, "iso": 2}]]), "items": [rng.randint(1, 3) for _ in range(rng.randint(5, 12))],
                   "attr": rng.choice(["shared", "shared", "perclass"]), "batch_sizes": [0, 1, 2, 3, 5], "seed": rng.randrange(10 ** 9), "share": rng.random() < 0.3})
    core.run_stage(ctx, c13.S("batched-versus-one-shot-clustering", cl))
    expansion_stages(ctx, nets)


def expansion_stages(ctx, nets):
    q, rng = ctx.quick, ctx.rng
    # design level: the expansion loop over every chemistry of a small universe
    core.model_check(ctx, "MC_Expansion", defines=dict(MC_BASE, Repeats="3" if q else "4", MaxSeeds="1" if q else "2"), label="Expansion-frontier-loop")
    core.model_check(ctx, "MC_Expansion", defines=dict(MC_BASE, UseFrontier="FALSE", Repeats="3", MaxSeeds="1" if q else "2"), label="Expansion-without-frontier")
    if not q:
        core.model_check(ctx, "MC_Expansion", defines=dict(MC_BASE, ArityCode="22", DedupAcross="TRUE", MaxSeeds="2", Repeats="3"), label="Expansion-two-binary-rules-dedup-across")
        core.model_check(ctx, "MC_Expansion", defines=dict(MC_BASE, ArityCode="3", NSpecies="4", MaxSeeds="3", Repeats="3", AllowEmpty="TRUE", SkipNoChange="FALSE"), label="Expansion-ternary-rule")
    core.model_check(ctx, "MC_Expansion", defines=dict(MC_BASE, CapMix="1", Repeats="3"), label="Expansion-with-a-binding-cap-is-incomplete", expect_violation=True)
    core.model_check(ctx, "MC_Expansion", cfg="MC_ExpansionRepeats", defines=dict(MC_BASE, Repeats="3"), label="Expansion-never-offers-A+A", expect_violation=True)
    # spec -> code: behaviours TLC found, with the chemistry it chose, replayed into the real class
    if q:
        gens = [dict(MC_BASE, Repeats="2", MaxSeeds="1"), dict(MC_BASE, Repeats="2", MaxSeeds="2", RichMenu="TRUE", NSpecies="2"),
                dict(MC_BASE, Repeats="3", MaxSeeds="1", CapMix="2", CapTasks="2"),
                dict(MC_BASE, Repeats="2", MaxSeeds="1", AllowEmpty="TRUE", SkipNoChange="FALSE", DedupDelta="FALSE", UseFrontier="FALSE")]
    else:
        gens = [dict(MC_BASE, Repeats="3", MaxSeeds="1"), dict(MC_BASE, Repeats="2", MaxSeeds="2", RichMenu="TRUE", NSpecies="2"),
                dict(MC_BASE, Repeats="3", MaxSeeds="1", CapMix="2", CapTasks="3"), dict(MC_BASE, Repeats="3", MaxSeeds="1", UseFrontier="FALSE"),
                dict(MC_BASE, Repeats="3", MaxSeeds="1", AllowEmpty="TRUE", SkipNoChange="FALSE", DedupDelta="FALSE"),
                dict(MC_BASE, Repeats="3", MaxSeeds="2", ArityCode="22", DedupAcross="TRUE"), dict(MC_BASE, Repeats="2", MaxSeeds="3", ArityCode="3", NSpecies="4")]
    per = 400 if q else 6000
    rep = []
    for d in gens:
        behs = core.tlc_generate(ctx, "MC_Expansion", d, cfg="MC_ExpansionGen", label="behaviours")
        if len(behs) > per:
            behs = rng.sample(behs, per)
        for k, b in enumerate(behs):
            b = dict(b, flat={"skip_no_change": rng.random() < 0.7, "allow_empty_side": rng.random() < 0.4, "deduplicate": rng.random() < 0.7})
            rep.append({"beh": b, "cfg": mc_cfg(d), "workers": rng.choice([2, 3]) if k % (40 if q else 25) == 0 else 0})
    core.run_stage(ctx, X("expansion-model-behaviours-replayed", replay_case, rep, False))
    # code -> spec: real chemistry, serial and parallel histories of the same build
    hist = []
    for rules, seeds in nets:
        for kw in ({"repeats": 2}, {"repeats": 2, "dedup_across_rules": True}, {"repeats": 3, "max_mixtures_per_rule_step": 7, "max_tasks_per_step": 11},
                   {"repeats": 2, "use_frontier": False}):
            s2 = list(seeds)
            rng.shuffle(s2)
            hist.append({"rules": rules, "seeds": s2, "kw": kw, "workers": [rng.choice([2, 3, 4])] if q else [2, 5]})
    core.run_stage(ctx, X("expansion-histories-real-chemistry", history_case, hist if not q else hist[:8], False))


def replay(ctx, data):
    if data["stage"].startswith("batched-versus-one-shot"):
        from harness.props import c13
        return core.run_stage(ctx, c13.S(data["stage"], [data["input"]]))
    if data["stage"].startswith("expansion"):
        fn = replay_case if "replayed" in data["stage"] else history_case
        core.run_stage(ctx, X(data["stage"], fn, [data["input"]], False))
        return
    fn = batch_case if data["stage"].startswith("batch") else same_case
    core.run_stage(ctx, S(data["stage"], fn, [data["input"]]))

"""C13 - clustering partitions graphs exactly into isomorphism classes."""
from __future__ import annotations

import copy
import random
from typing import Any, Dict, List

from harness import core, graphlib as gl

NODE_ATTRS = ["element", "charge"]
EDGE_ATTRS = ["order"]


def bases(rng: random.Random) -> Dict[int, Dict[str, Any]]:
    """Three pairwise non-isomorphic look-alikes: a graph, one bond order changed, one charge changed."""
    while True:
        b1 = gl.random_graph(rng, rng.randint(3, 7), nlab=2, maxhc=0, maxord=2, connected=True)
        if rng.random() < 0.3 and b1["n"] <= 5:
            # a centre made of two fragments of the same size that are not isomorphic to each other (one label differs)
            twin = copy.deepcopy(b1)
            k = rng.randrange(twin["n"])
            twin["lab"][k] = 3 - twin["lab"][k] if twin["lab"][k] in (1, 2) else 1
            b1 = gl.disjoint_union(b1, twin)
        es = [(u, v) for u in range(b1["n"]) for v in range(u + 1, b1["n"]) if b1["adj"][u][v]]
        if es:
            break
    b2 = copy.deepcopy(b1)
    u, v = rng.choice(es)
    b2["adj"][u][v] = b2["adj"][v][u] = 3 - b1["adj"][u][v]
    b3 = copy.deepcopy(b1)
    k = rng.randrange(b1["n"])
    if rng.random() < 0.5:
        b3["lab"][k] = {1: 3, 2: 5}[b1["lab"][k]]          # C -> C+, O -> O-
    else:                                                  # a look-alike of another size: one more atom hanging off atom k
        n = b1["n"]
        b3["n"] = n + 1
        b3["lab"] = list(b1["lab"]) + [b1["lab"][k]]
        if "hc" in b3:
            b3["hc"] = list(b1["hc"]) + [0]
        b3["adj"] = [list(row) + [0] for row in b1["adj"]] + [[0] * (n + 1)]
        b3["adj"][k][n] = b3["adj"][n][k] = 1
    return {1: b1, 2: b2, 3: b3}


def cluster_case(inp):
    from synkit.Graph.Matcher.graph_cluster import GraphCluster
    from synkit.Graph.Matcher.batch_cluster import BatchCluster
    rng = random.Random(inp["seed"])
    B = bases(rng)
    style = inp["attr"]

    def attr_of(iso):
        return {"none": "x", "absent": "x", "shared": "x", "perclass": f"a{iso}"}[style]

    shared: Dict[int, Any] = {}
    layout: Dict[str, Any] = {}

    def entry(iso):
        # "share": several entries may carry the very same graph object (a list drawn with repetition from a pool)
        if inp.get("share") and iso in shared and rng.random() < 0.6:
            return {"gml": shared[iso], "sig": attr_of(iso), "_iso": iso}
        if iso in (1, 2) and layout.get("n") == B[iso]["n"] and layout.get("iso") != iso and rng.random() < 0.5:
            # a near-miss made by copying and editing: same node ids, same bonds, one bond order / nothing else differs
            G, _ = gl.realise(gl.induced(B[iso], layout["perm"]), rng, ids=layout["ids"], with_hcount=False)
        else:
            perm = list(range(B[iso]["n"]))
            rng.shuffle(perm)
            G, ids = gl.realise(gl.induced(B[iso], perm), rng, with_hcount=False)
            layout.update(n=B[iso]["n"], perm=perm, ids=ids, iso=iso)
        shared[iso] = G
        return {"gml": G, "sig": attr_of(iso), "_iso": iso}
    coder = gl.Coder()

    def proj(G):
        return gl.project(G, NODE_ATTRS, EDGE_ATTRS, coder, hcount=False)[0]
    lib = [dict(entry(t["iso"]), **{"class": t["cls"]}) for t in inp["lib"]]
    items = inp["items"]
    runs = []
    akey = None if style in ("none", "absent") else "sig"
    bkey = {"none": None, "absent": "no-such-key"}.get(style, "sig")      # incremental classification without a pre-grouping attribute
    # one-shot clustering, in the given order and in a shuffled order
    for how in ("oneshot", "oneshot-shuffled"):
        data = [entry(i) for i in items]
        if how.endswith("shuffled"):
            rng.shuffle(data)
        res = GraphCluster().fit(data, rule_key="gml", attribute_key=akey)
        runs.append({"how": how, "g": [proj(d["gml"]) for d in res],
                     "cls": [d["class"] if d.get("class") is not None else -1 for d in res]})
    # batch / incremental classification against the library
    for bs in inp["batch_sizes"]:
        data = [entry(i) for i in items]
        templ = [dict(t) for t in lib]
        bc = BatchCluster()
        if bs == -1:       # item by item through lib_check
            out = []
            for d in data:
                d2, templ = bc.lib_check(d, templ, rule_key="gml", attribute_key=bkey)
                out.append(d2)
        elif bs == -2:     # cluster()
            out, templ = bc.cluster(data, templ, rule_key="gml", attribute_key=bkey)
        else:
            # (fit bootstraps with GraphCluster, which needs the attribute on every entry when a key is named)
            out, templ = bc.fit(data, templ, rule_key="gml", attribute_key=None if style == "absent" else bkey, batch_size=bs or None)
        allg = [proj(t["gml"]) for t in lib] + [proj(d["gml"]) for d in out]
        allc = [t["class"] for t in lib] + [d["class"] if d.get("class") is not None else -1 for d in out]
        runs.append({"how": f"incremental-bs{bs}", "g": allg, "cls": [int(c) for c in allc]})
    return {"runs": runs}


class S(core.Stage):
    module = "C13Cases"
    shard_size = 250
    nontrivial_rule = ">= 3 items from >= 2 isomorphism classes"

    def __init__(self, name, inputs):
        self.name, self._inputs = name, inputs

    def inputs(self, ctx):
        return self._inputs

    def execute(self, inp):
        return cluster_case(inp)

    def nontrivial(self, c):
        r = c["runs"][0]
        return len(r["cls"]) >= 3 and len(set(r["cls"])) >= 2


def run(ctx: core.Ctx) -> None:
    ctx.assumptions += ["TLC 1.8 + Json module trusted", "isomorphism on element, charge and bond order is decided by LGraph!IsIso in TLC",
                        "the pre-grouping attribute is a function of the isomorphism class (or absent)"]
    q, rng = ctx.quick, ctx.rng
    # design level + generator: all arrival histories over 3 isomorphism classes and 5 initial libraries
    core.model_check(ctx, "Cluster", defines={"NIso": "3", "MaxLen": "4" if q else "5"}, label="Cluster-state-machine")
    hist = core.tlc_generate(ctx, "Cluster", {"NIso": "3", "MaxLen": "4" if q else "5"}, label="histories")
    seen, inputs = set(), []
    for h in hist:
        key = core.cj(h)
        if key in seen:
            continue
        seen.add(key)
        inputs.append({"lib": h["lib"], "items": h["items"], "attr": rng.choice(["none", "absent", "shared", "perclass"]),
                       "batch_sizes": [0, 1, 2, -1, -2] if not h["lib"] else [0, 1, 2, -1], "seed": rng.randrange(10 ** 9),
                       "share": rng.random() < 0.3})
    ctx.exhaustive = True
    core.run_stage(ctx, S("all-arrival-histories", inputs))
    longer = []
    for _ in range(150 if q else 3000):
        n = rng.randint(6, 14)
        longer.append({"lib": rng.choice([[], [{"cls": 4, "iso": 2}], [{"cls": 1, "iso": 3}, {"cls": 9, "iso": 1}]]),
                       "items": [rng.randint(1, 3) for _ in range(n)], "attr": rng.choice(["shared", "perclass", "none", "absent"]),
                       "batch_sizes": [0, 3, 5, -1], "seed": rng.randrange(10 ** 9), "share": rng.random() < 0.3})
    core.run_stage(ctx, S("random-multisets", longer))


def replay(ctx, data):
    core.run_stage(ctx, S(data["stage"], [data["input"]]))

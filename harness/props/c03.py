"""C03 - every reaction proposed by rule application is a genuine instance of the rule."""
from __future__ import annotations

import random
from typing import Any, Dict, List

from harness import chem, core, reactlib


def apply_case(inp):
    from synkit.IO.chem_converter import rsmi_to_its
    from synkit.Graph.ITS.its_decompose import get_rc
    its = rsmi_to_its(inp["template"])
    tpl = get_rc(its) if inp["centre"] else its
    mode = reactlib.rule_mode(get_rc(its))
    if mode == "explicit" and inp.get("implicit_temp_on_explicit"):
        mode = "implicit-x"      # explicit-H template used with implicit_temp=True, explicit_h=False
    try:
        R = reactlib.make_reactor(inp["substrate"], tpl, invert=inp["invert"], strategy=inp["strategy"], mode=mode)
        _ = R.smarts_list
    except Exception as e:           # the library raising on a template/substrate pair is "no reaction returned", not a violation of C03
        return {"_skip": "application-raised:" + type(e).__name__}
    case = reactlib.result_case(R, mode)       # projection: an exception here is a harness error and is reported as one
    if not case["results"]:
        return {"_skip": "no-result"}
    # the template AS WRITTEN (not the rule object the library derives from it), in the direction of the application
    t = reactlib.strip(chem.its_abs(tpl, sorted(tpl.nodes())))
    if inp["invert"]:
        t = dict(t, tG=t["tH"], tH=t["tG"], oG=t["oH"], oH=t["oG"])
    case["tpl"] = t
    return case


class S(core.Stage):
    module = "C03Cases"
    tlc_heap = "4g"

    def __init__(self, name, inputs, shard=40):
        self.name, self._inputs, self.shard_size = name, inputs, shard
        self.nontrivial_rule = "application with at least one result"

    def inputs(self, ctx):
        return self._inputs

    def execute(self, inp):
        return apply_case(inp)

    def tags(self, c):
        return [c["mode"], "results>=2"] if len(c["results"]) >= 2 else [c["mode"]]


def make_inputs(rng, tpls, n_own, n_foreign):
    out = []
    own = rng.sample(tpls, min(n_own, len(tpls)))
    for t in own:
        r, p = t["rsmi"].split(">>")
        for invert in (False, True):
            out.append({"template": t["rsmi"], "substrate": reactlib.unmapped_side(p if invert else r), "invert": invert,
                        "centre": rng.random() < 0.7, "strategy": rng.choice(["all", "comp", "bt"]), "kind": "own",
                        "render_h": False})
    small = [t for t in tpls if t["natoms"] <= 40]
    for _ in range(n_foreign):
        t, s = rng.choice(small), rng.choice(small)
        invert = rng.random() < 0.4
        r, p = s["rsmi"].split(">>")
        out.append({"template": t["rsmi"], "substrate": reactlib.unmapped_side(p if invert else r), "invert": invert,
                    "centre": True, "strategy": rng.choice(["all", "comp", "bt"]), "kind": "foreign", "render_h": False})
    return out


def textbook_inputs():
    out = []
    for t in reactlib.textbook():
        r, p = t["rsmi"].split(">>")
        for sub in t["substrates"]:
            for strategy in ("all", "comp", "bt"):
                for centre in (True, False):
                    for render in (False,):
                        out.append({"template": t["rsmi"], "substrate": sub, "invert": False, "centre": centre, "strategy": strategy,
                                    "kind": "textbook:" + t["name"], "render_h": render})
                        if "explicit" in t["name"]:
                            out.append({"template": t["rsmi"], "substrate": sub, "invert": False, "centre": centre, "strategy": strategy,
                                        "kind": "textbook:" + t["name"], "implicit_temp_on_explicit": True})
        for strategy in ("all", "comp"):
            for render in (False,):
                out.append({"template": t["rsmi"], "substrate": reactlib.unmapped_side(p), "invert": True, "centre": True, "strategy": strategy,
                            "kind": "textbook-backward:" + t["name"], "render_h": render})
                if "explicit" in t["name"]:
                    out.append({"template": t["rsmi"], "substrate": reactlib.unmapped_side(p), "invert": True, "centre": True, "strategy": strategy,
                                "kind": "textbook-backward:" + t["name"], "implicit_temp_on_explicit": True})
    return out


def run(ctx: core.Ctx) -> None:
    ctx.assumptions += ["TLC 1.8 + Json module trusted", "RDKit parses SMILES (projection only)",
                        "templates: fully mapped on both sides (decided by the spec); hydrogens of the centre all explicit (explicit-H mode) or none (implicit-H mode), otherwise skipped",
                        "clause (c) is judged on the graphs of SynReactor.its_list (the re-parsed SMILES strings re-perceive aromaticity)",
                        "an exception raised by the library for a (template, substrate) pair is counted as 'no reaction returned' (skipped)"]
    q, rng = ctx.quick, ctx.rng
    tpls = reactlib.templates()
    core.run_stage(ctx, S("textbook-templates", textbook_inputs()))
    core.run_stage(ctx, S("corpus-templates-on-corpus-substrates", make_inputs(rng, tpls, 150 if q else 330, 1500 if q else 12000)))


def replay(ctx, data):
    core.run_stage(ctx, S(data["stage"], [data["input"]]))

"""C06 - subgraph search returns exactly the label-preserving monomorphisms."""
from __future__ import annotations

import random
from typing import Any, Dict, List

from harness import core, graphlib as gl

NODE_ATTRS = ["element", "charge"]
EDGE_ATTRS = ["order"]


def search_case(inp: Dict[str, Any]) -> Dict[str, Any]:
    from synkit.Graph.Matcher.subgraph_matcher import SubgraphSearchEngine as E
    rng = random.Random(inp["seed"])
    P, pids = gl.realise(inp["P"], rng)
    H, hids = gl.realise(inp["H"], rng)
    snapP, snapH = gl.snapshot(P), gl.snapshot(H)
    coder = gl.Coder()
    aP, _ = gl.project(P, NODE_ATTRS, EDGE_ATTRS, coder, ids=pids)
    aH, _ = gl.project(H, NODE_ATTRS, EDGE_ATTRS, coder, ids=hids)
    runs = []
    for cfg in inp["cfgs"]:
        kw = dict(node_attrs=NODE_ATTRS, edge_attrs=EDGE_ATTRS, strategy=cfg["strategy"], strict_cc_count=cfg["strict"],
                  max_results=cfg["k"] or None, threshold=cfg["t"] or None, pre_filter=cfg["pre"])
        res = E.find_subgraph_mappings(H, P, **kw)
        runs.append({"strategy": cfg["strategy"], "strict": cfg["strict"], "k": cfg["k"], "t": cfg["t"], "pre": cfg["pre"],
                     "res": [gl.map_to_seq(m, pids, hids) if len(m) == len(pids) else [0] * len(pids) for m in res]})
    unchanged = gl.snapshot(P) == snapP and gl.snapshot(H) == snapH
    return {"P": aP, "H": aH, "unchanged": unchanged, "runs": runs}


def cfgs_full() -> List[Dict[str, Any]]:
    out = []
    for s in ("all", "comp", "bt"):
        for strict in ((False, True) if s != "all" else (False,)):
            out.append({"strategy": s, "strict": strict, "k": 0, "t": 0, "pre": False})
        out.append({"strategy": s, "strict": False, "k": 0, "t": 0, "pre": True})
        for k in (1, 2):
            out.append({"strategy": s, "strict": False, "k": k, "t": 0, "pre": False})
        for t in (1, 3):
            out.append({"strategy": s, "strict": False, "k": 0, "t": t, "pre": False})
    return out


class S(core.Stage):
    module = "C06Cases"
    shard_size = 1500
    nontrivial_rule = "pattern with >= 2 nodes and at least one monomorphism returned by strategy all"

    def __init__(self, name, inputs):
        self.name, self._inputs = name, inputs

    def inputs(self, ctx):
        return self._inputs

    def execute(self, inp):
        return search_case(inp)

    def nontrivial(self, c):
        return c["P"]["n"] >= 2 and len(c["runs"][0]["res"]) > 0

    def tags(self, c):
        t = []
        if c["runs"][0]["res"]:
            t.append("has-match")
        a = {tuple(m) for m in c["runs"][0]["res"]}
        comp = [r for r in c["runs"] if r["strategy"] == "comp" and not r["strict"] and not r["k"] and not r["t"] and not r["pre"]]
        if comp and {tuple(m) for m in comp[0]["res"]} != a:
            t.append("comp-differs-from-all")
        return t


def pairs(ctx, patterns, hosts, n, cfgs):
    rng = ctx.rng
    out = []
    if len(patterns) * len(hosts) <= n:
        for p in patterns:
            for h in hosts:
                out.append({"P": p, "H": h, "cfgs": cfgs, "seed": rng.randrange(10 ** 9)})
    else:
        for _ in range(n):
            out.append({"P": rng.choice(patterns), "H": rng.choice(hosts), "cfgs": cfgs, "seed": rng.randrange(10 ** 9)})
    return out


def random_pairs(rng: random.Random, n: int, cfgs) -> List[Any]:
    out = []
    for _ in range(n):
        hn = rng.randint(4, 9)
        if rng.random() < 0.4:           # disconnected host
            a = gl.random_graph(rng, rng.randint(2, hn - 2), nlab=3, connected=True)
            b = gl.random_graph(rng, hn - a["n"], nlab=3, connected=True)
            H = gl.disjoint_union(a, b)
        else:
            H = gl.random_graph(rng, hn, nlab=3, connected=rng.random() < 0.7)
        r = rng.random()
        if r < 0.55:                     # planted: a sub-structure of the host (possibly with lower hcount, fewer bonds)
            k = rng.randint(1, min(4, H["n"]))
            nodes = rng.sample(range(H["n"]), k)
            P = gl.induced(H, nodes)
            for v in range(k):
                if rng.random() < 0.3:
                    P["hc"][v] = max(0, P["hc"][v] - 1)
            for u in range(k):
                for v in range(u + 1, k):
                    if P["adj"][u][v] and rng.random() < 0.2:
                        P["adj"][u][v] = P["adj"][v][u] = 0
            P = gl.permuted(P, rng)
        else:
            P = gl.random_graph(rng, rng.randint(1, 4), nlab=3, connected=rng.random() < 0.6)
        out.append({"P": P, "H": H, "cfgs": cfgs, "seed": rng.randrange(10 ** 9)})
    return out


def run(ctx: core.Ctx) -> None:
    ctx.assumptions += ["TLC 1.8 + Json module trusted",
                        "max_results is read as 'returns a duplicate-free sub-list of the unlimited result, at most k long' (for strategy all exactly min(k, size))",
                        "strict_cc_count=True is modelled as its documented guard; the exact-set claim is checked with False"]
    q = ctx.quick
    cfgs = cfgs_full()
    base = {"NLab": "2", "MaxHc": "1", "MaxOrd": "2", "CanonOnly": "TRUE", "MinN": "0"}
    g3 = core.tlc_generate(ctx, "GraphGen", dict(base, MaxN="3"), label="graphs<=3")
    pats = [g for g in g3 if g["n"] >= 0]
    hosts = list(g3)
    if not q:
        g4 = core.tlc_generate(ctx, "GraphGen", dict(base, MaxN="4", MinN="4"), label="graphs=4")
        g5 = core.tlc_generate(ctx, "GraphGen", {"MaxN": "5", "NLab": "2", "MaxHc": "0", "MaxOrd": "1", "CanonOnly": "TRUE", "MinN": "5"}, label="graphs=5")
        hosts4, hosts5 = g4, g5
    else:
        g4 = core.tlc_generate(ctx, "GraphGen", {"MaxN": "4", "NLab": "2", "MaxHc": "0", "MaxOrd": "1", "CanonOnly": "TRUE", "MinN": "4"}, label="graphs=4-small")
        hosts4, hosts5 = g4, []
    pats2 = [g for g in g3 if g["n"] <= 2]
    core.run_stage(ctx, S("exhaustive-pattern<=2-host<=3", pairs(ctx, pats2, hosts, 10 ** 9, cfgs)))
    ctx.exhaustive = True
    core.run_stage(ctx, S("pattern<=3-host<=3", pairs(ctx, pats, hosts, 6000 if q else 158404, cfgs)))
    core.run_stage(ctx, S("pattern<=3-host=4", pairs(ctx, pats, hosts4, 4000 if q else 150000, cfgs)))
    if hosts5:
        core.run_stage(ctx, S("pattern<=3-host=5", pairs(ctx, pats, hosts5, 60000, cfgs)))
    core.run_stage(ctx, S("random<=9", random_pairs(ctx.rng, 1500 if q else 40000, cfgs)))


def replay(ctx, data):
    core.run_stage(ctx, S(data["stage"], [data["input"]]))

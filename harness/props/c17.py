"""C17 - stoichiometric analysis agrees with exact linear algebra."""
from __future__ import annotations

from fractions import Fraction
from math import gcd
from typing import Any, Dict, List, Optional

from harness import core, crnlib


def _tri(x) -> str:
    return "N" if x is None else ("T" if bool(x) else "F")


def _scaled(v) -> List[int]:
    return [int(round(float(x) * 1_000_000)) for x in v]


def _to_ints(xs, cap=10 ** 6) -> Optional[List[int]]:
    fr = [Fraction(float(x)).limit_denominator(2000) for x in xs]
    den = 1
    for f in fr:
        den = den * f.denominator // gcd(den, f.denominator)
    ints = [int(f * den) for f in fr]
    g = 0
    for a in ints:
        g = gcd(g, abs(a))
    if g > 1:
        ints = [a // g for a in ints]
    if any(abs(a) > cap for a in ints):
        return None
    return ints


def find_cert(A, kind_pos_rows: bool):
    """Untrusted certificate finder (scipy LP + rationalisation). TLC verifies whatever is returned.
    A is the integer matrix whose kernel we look at:  find x > 0 with A x = 0  (pos)
    or y with A^T y >= 0, != 0 (alt)."""
    import numpy as np
    from scipy.optimize import linprog
    A = np.asarray(A, dtype=float)
    m, n = A.shape
    if n == 0:
        return {"kind": "none", "v": []}
    try:
        res = linprog(np.ones(n), A_eq=A if m else None, b_eq=np.zeros(m) if m else None,
                      bounds=[(1, None)] * n, method="highs")
        if res.success:
            v = _to_ints(res.x)
            if v is not None and all(a > 0 for a in v) and not np.any(A @ np.array(v, dtype=float)):
                return {"kind": "pos", "v": v}
    except Exception:
        pass
    if m == 0:
        return {"kind": "none", "v": []}
    try:
        # y = p - q, p,q >= 0 ; A^T y >= 0 ; 1^T A^T y >= 1 ; minimise sum(p+q)
        At = A.T
        A_ub = np.vstack([np.hstack([-At, At]), np.hstack([-At.sum(axis=0), At.sum(axis=0)])[None, :]])
        b_ub = np.concatenate([np.zeros(n), [-1.0]])
        res = linprog(np.ones(2 * m), A_ub=A_ub, b_ub=b_ub, bounds=[(0, None)] * (2 * m), method="highs")
        if res.success:
            y = res.x[:m] - res.x[m:]
            v = _to_ints(y)
            if v is not None:
                w = At @ np.array(v, dtype=float)
                if np.all(w >= 0) and np.any(w > 0):
                    return {"kind": "alt", "v": v}
    except Exception:
        pass
    return {"kind": "none", "v": []}


def analyse(net: Dict[str, Any]) -> Dict[str, Any]:
    import numpy as np
    from synkit.CRN.Props import stoich
    H = crnlib.build(net)
    sp, rx, S = stoich.build_S(H)
    S = np.asarray(S, dtype=float)
    integral = bool(np.all(np.abs(S - np.round(S)) < 1e-9))
    Si = [[int(round(x)) for x in row] for row in S.tolist()]
    isp, irx, inc = H.incidence_matrix(sparse=False)
    L = stoich.left_nullspace(H)
    R = stoich.right_nullspace(H)
    L = np.atleast_2d(L) if L.size else np.zeros((len(sp), 0))
    R = np.atleast_2d(R) if R.size else np.zeros((len(rx), 0))
    flag2, wit = stoich.compute_conservativity(H)
    sm = stoich.summary(H)
    # exact S for the certificate finder comes from the abstract network, not from the code under test
    ids = [e["id"] for e in net["rx"]]
    exact = [[e["r"].get(s, 0) - e["l"].get(s, 0) for e in net["rx"]] for s in net["sp"]]
    ex = np.array(exact, dtype=float).reshape(len(net["sp"]), len(ids))
    small = False  # always propose certificates; TLC ignores them where it searches the box itself
    cert_cons = {"kind": "none", "v": []} if small else find_cert(ex.T, True)
    cert_flux = {"kind": "none", "v": []} if small else find_cert(ex, True)
    # reaction_order of build_S: labels of reaction nodes; map to ids
    labels = sorted({str(r) for r in rx} | {str(e["rule"]) for e in net["rx"]})      # strings are ordered here, TLC compares ranks
    rank = {l: k + 1 for k, l in enumerate(labels)}
    return {"net": net, "sp_order": [str(s) for s in sp], "rx_order": [str(r) for r in rx], "S": Si, "integral": integral,
            "rx_rank": [rank[str(r)] for r in rx], "rule_rank": [rank[str(e["rule"])] for e in net["rx"]],
            "inc_sp": list(isp), "inc_rx": list(irx), "inc": [[int(v) for v in row] for row in inc.tolist()],
            "rank": int(stoich.stoichiometric_rank(H)),
            "L": [_scaled(L[:, k]) for k in range(L.shape[1])], "R": [_scaled(R[:, k]) for k in range(R.shape[1])],
            "conservative": _tri(stoich.is_conservative(H)), "conservative2": _tri(flag2),
            "witness": _scaled(wit) if wit is not None else [],
            "consistent": _tri(stoich.is_consistent(H)),
            "sum": {"n_species": int(sm.n_species), "n_reactions": int(sm.n_reactions), "rank": int(sm.rank),
                    "dl": int(sm.dim_left_kernel), "dr": int(sm.dim_right_kernel),
                    "cons": _tri(sm.is_conservative), "consist": _tri(sm.is_consistent)},
            "cert_cons": cert_cons, "cert_flux": cert_flux}


class Nets(core.Stage):
    module = "C17Cases"
    shard_size = 600
    nontrivial_rule = "network with at least 2 reactions"

    def __init__(self, name, inputs):
        self.name, self._inputs = name, inputs

    def inputs(self, ctx):
        return self._inputs

    def execute(self, inp):
        return analyse(inp)

    def nontrivial(self, c):
        return len(c["net"]["rx"]) >= 2

    def tags(self, c):
        return ["cons=" + c["conservative"], "consist=" + c["consistent"]]


def run(ctx: core.Ctx) -> None:
    ctx.assumptions += ["TLC 1.8 + Json module trusted", "Stiemke's theorem of the alternative",
                        "floating-point kernel vectors are judged on 10^-6 rounding with an exact integer residual bound",
                        "the scipy-based certificate finder is untrusted: TLC verifies each certificate; cases without one are skipped and counted"]
    q = ctx.quick
    gen = core.tlc_generate(ctx, "NetGen", {"MaxCoef": "2", "MaxRx": "1" if q else "2", "Dup": "FALSE"}, label="coef012")
    nets = [crnlib.norm_net(n) for n in gen]
    if q:
        gen2 = core.tlc_generate(ctx, "NetGen", {"MaxCoef": "1", "MaxRx": "2", "Dup": "FALSE"}, label="coef01-rx2")
        nets += [crnlib.norm_net(n) for n in gen2]
    core.run_stage(ctx, Nets("exhaustive-3species", nets))
    ctx.exhaustive = True
    core.run_stage(ctx, Nets("textbook", [crnlib.parse(v) for v in crnlib.TEXTBOOK.values()]))
    n = 1200 if q else 25000
    core.run_stage(ctx, Nets("random-7x6", [crnlib.random_net(ctx.rng, 7, 6, 3) for _ in range(n)]))
    sk = sum(v for k, v in ctx.skipped.items() if "no-verified-certificate" in k)
    if sk > 0.02 * max(1, ctx.evaluations):
        raise core.MachineryError(f"{sk} cases without a verified certificate (finder too weak)")


def replay(ctx, data):
    core.run_stage(ctx, Nets(data["stage"], [data["input"]]))

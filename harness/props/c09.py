"""C09 - reaction normal forms preserve the reaction; equivalence checks are exact."""
from __future__ import annotations

import random
import re
from typing import Any, Dict, List, Optional

import networkx as nx
from rdkit import Chem

from harness import chem, core, graphlib as gl


def all_atoms_abs(side: str) -> Optional[Dict[str, Any]]:
    m = chem.mol_from_smiles(side)
    if m is None:
        return None
    return {"n": m.GetNumAtoms(), "t": [[a.GetAtomicNum(), int(a.GetIsAromatic()), a.GetTotalNumHs(), a.GetFormalCharge()] for a in m.GetAtoms()]}


def wl_discrete(G: nx.Graph) -> bool:
    """precondition 'all reactant atoms distinguishable': 3 rounds of colour refinement on (element, aromatic, charge, hcount; order) give every atom its own colour"""
    from networkx.algorithms.graph_hashing import weisfeiler_lehman_subgraph_hashes
    g = G.copy()
    for n, d in g.nodes(data=True):
        d["_init"] = str((d.get("element"), d.get("aromatic"), d.get("charge"), d.get("hcount")))
    h = weisfeiler_lehman_subgraph_hashes(g, node_attr="_init", edge_attr="order", iterations=3)
    final = [v[-1] for v in h.values()]
    return len(set(final)) == len(final)


def canon_case(inp):
    from synkit.Chem.Reaction.canon_rsmi import CanonRSMI
    from synkit.IO.chem_converter import rsmi_to_graph
    rsmi, backend = inp["rsmi"], inp["backend"]
    rng = random.Random(inp["seed"])
    r, p = rsmi.split(">>")
    a, b = chem.rdkit_abs(r), chem.rdkit_abs(p)
    if a is None or b is None or a[1] != b[1] or not a[1]:
        return {"_skip": "not-fully-mapped-or-unbalanced"}
    ids = a[1]
    n = len(ids)
    dummy = {"n": n, "t": [[0, 0, 0, 0]] * n, "adj": [[0] * n for _ in range(n)], "present": [0] * n}
    case = {"kind": "canon", "backend": backend, "G": a[0], "H": b[0], "oG": dummy, "oH": dummy, "ok": False,
            "unm": {"r_in": chem.unmapped(r), "p_in": chem.unmapped(p), "r_out": "", "p_out": ""}, "out": "", "again": "", "distinct": False, "variants": []}
    try:
        c = CanonRSMI(backend=backend).canonicalise(rsmi)
        out = c.canonical_rsmi
    except Exception:
        return case
    if not isinstance(out, str) or ">>" not in out:
        return case
    orr, opp = out.split(">>")
    x, y = chem.rdkit_abs(orr), chem.rdkit_abs(opp)
    if x is None or y is None:
        return case
    # atom-map equivalence: the reaction is the same up to renaming the maps; the renaming is recovered as the unique
    # label-preserving isomorphism on distinguishable reactions, otherwise by VF2 (untrusted witness, verified by TLC through FoldEq)
    from networkx.algorithms.isomorphism import GraphMatcher
    def nxg(M, mids):
        g = nx.Graph()
        for k, v in enumerate(mids):
            g.add_node(v, t=tuple(M["t"][k]))
        for i in range(M["n"]):
            for j in range(i + 1, M["n"]):
                if M["adj"][i][j]:
                    g.add_edge(mids[i], mids[j], o=M["adj"][i][j])
        return g
    # witness search on the ITS-like union graph (both sides at once)
    def union(A, B, mids):
        g = nx.Graph()
        for k, v in enumerate(mids):
            g.add_node(v, t=(tuple(A["t"][k]), tuple(B["t"][k])))
        for i in range(A["n"]):
            for j in range(i + 1, A["n"]):
                if A["adj"][i][j] or B["adj"][i][j]:
                    g.add_edge(mids[i], mids[j], o=(A["adj"][i][j], B["adj"][i][j]))
        return g
    pi = None
    if x[1] == y[1] and len(x[1]) == n:
        gm = GraphMatcher(union(a[0], b[0], ids), union(x[0], y[0], x[1]), node_match=lambda u, v: u["t"] == v["t"], edge_match=lambda u, v: u["o"] == v["o"])
        if gm.is_isomorphic():
            pi = dict(gm.mapping)
    if pi is not None:
        pos = {m: k for k, m in enumerate(x[1])}
        def on(M):
            t = [M["t"][pos[pi[v]]] for v in ids]
            adj = [[M["adj"][pos[pi[u]]][pos[pi[v]]] for v in ids] for u in ids]
            return {"n": n, "t": t, "adj": adj, "present": [1] * n}
        case["oG"], case["oH"] = on(x[0]), on(y[0])
    case["ok"] = True
    case["unm"]["r_out"], case["unm"]["p_out"] = chem.unmapped(orr), chem.unmapped(opp)
    case["out"] = out
    try:
        case["again"] = CanonRSMI(backend=backend).canonicalise(out).canonical_rsmi or ""
    except Exception:
        case["again"] = ""
    G, _ = rsmi_to_graph(rsmi)
    case["distinct"] = bool(G is not None and wl_discrete(G))
    vs = []
    for _ in range(inp["nvar"]):
        s2, _ = chem.renumber_aam(rsmi, rng)
        if rng.random() < 0.6:
            s2 = chem.reroot(s2, rng)
        try:
            vs.append(CanonRSMI(backend=backend).canonicalise(s2).canonical_rsmi or "")
        except Exception:
            vs.append("")
    case["variants"] = vs
    return case


def std_case(inp):
    from synkit.Chem.Reaction.standardize import Standardize
    rng = random.Random(inp["seed"])
    ways = [inp["rsmi"]]
    for _ in range(inp["nvar"]):
        s, _ = chem.renumber_aam(inp["rsmi"], rng)
        ways.append(chem.reroot(s, rng) if rng.random() < 0.7 else chem.shuffle_fragments(s, rng))
    std = Standardize()
    outs = [std.fit(w) or "" for w in ways]
    twice = [(std.fit(o) or "") if o else "" for o in outs]
    return {"kind": "std", "outs": outs, "twice": twice}


def centre_graph(rsmi, method, coder):
    from synkit.IO.chem_converter import rsmi_to_graph
    from synkit.Graph.ITS.its_construction import ITSConstruction
    from synkit.Graph.ITS.its_decompose import get_rc
    G, H = rsmi_to_graph(rsmi=rsmi, sanitize=True, drop_non_aam=True)
    its = ITSConstruction().ITSGraph(G, H)
    g = get_rc(its) if method == "RC" else its
    ids = list(g.nodes())
    idx = {v: k for k, v in enumerate(ids)}
    n = len(ids)
    lab = [coder.ncode(gl._freeze(g.nodes[v].get("typesGH"))) for v in ids]
    adj = [[0] * n for _ in range(n)]
    for u, v, d in g.edges(data=True):
        adj[idx[u]][idx[v]] = adj[idx[v]][idx[u]] = coder.ecode(gl._freeze(d.get("order")))
    return {"n": n, "lab": lab, "hc": [0] * n, "adj": adj}


def aam_case(inp):
    from synkit.Chem.Reaction.aam_validator import AAMValidator
    coder = gl.Coder()
    try:
        A = centre_graph(inp["mapped"], inp["method"], coder)
        B = centre_graph(inp["truth"], inp["method"], coder)
    except Exception:
        return {"_skip": "no-centre"}
    if A["n"] > 16 or B["n"] > 16:
        return {"_skip": "graph-too-large-for-the-spec-level-isomorphism-search"}
    v = AAMValidator.smiles_check(inp["mapped"], inp["truth"], check_method=inp["method"])
    return {"kind": "aam", "A": A, "B": B, "verdict": bool(v), "method": inp["method"] + ":" + inp["how"]}


def bal_case(inp):
    from synkit.Chem.Reaction.balance_check import BalanceReactionCheck
    r, p = inp["rsmi"].split(">>")
    R, P = all_atoms_abs(r), all_atoms_abs(p)
    if R is None or P is None:
        return {"_skip": "unparsable"}
    return {"kind": "bal", "R": R, "P": P, "verdict": bool(BalanceReactionCheck.rsmi_balance_check(inp["rsmi"]))}


class S(core.Stage):
    module = "C09Cases"

    def __init__(self, name, fn, inputs, shard=150):
        self.name, self.fn, self._inputs, self.shard_size = name, fn, inputs, shard
        self.nontrivial_rule = "every case"

    def inputs(self, ctx):
        return self._inputs

    def execute(self, inp):
        return self.fn(inp)

    def tags(self, c):
        if c["kind"] == "canon":
            return [c["backend"]] + (["all-atoms-distinguishable"] if c["distinct"] else [])
        if c["kind"] == "aam":
            return ["accepted" if c["verdict"] else "rejected"]
        if c["kind"] == "bal":
            return ["balanced" if c["verdict"] else "unbalanced"]
        return []


def swap_two_centre_maps(rsmi: str, rng: random.Random) -> Optional[str]:
    """adversarial re-mapping: transpose the map numbers of two reaction-centre atoms on the product side"""
    from synkit.IO.chem_converter import rsmi_to_its
    from synkit.Graph.ITS.its_decompose import get_rc
    try:
        rc = get_rc(rsmi_to_its(rsmi))
    except Exception:
        return None
    by_el: Dict[str, List[int]] = {}
    for v, d in rc.nodes(data=True):
        by_el.setdefault(d.get("element"), []).append(v)
    cands = [(a, b) for vs in by_el.values() for a in vs for b in vs if a < b]
    if not cands:
        return None
    a, b = rng.choice(cands)
    r, p = rsmi.split(">>")
    p2 = re.sub(r":(\d+)\]", lambda m: ":%d]" % ({a: b, b: a}.get(int(m.group(1)), int(m.group(1)))), p)
    return r + ">>" + p2


def run(ctx: core.Ctx) -> None:
    ctx.assumptions += ["TLC 1.8 + Json module trusted", "RDKit parses SMILES (projection only); strings are compared for equality only",
                        "'all reactant atoms distinguishable' is read as: 3 rounds of colour refinement give every reactant atom its own colour (computed in the harness with networkx)",
                        "atom-map equivalence of the canonical output is verified by TLC through an isomorphism proposed by VF2 (untrusted witness)",
                        "reaction centres above 16 atoms are not judged by the spec-level isomorphism search (counted as skipped)"]
    q, rng = ctx.quick, ctx.rng
    rx = [r["rsmi"] for r in chem.corpus()]
    sample = rng.sample(rx, 70) if q else rx
    from harness import reactlib
    tb = [t["rsmi"] for t in reactlib.textbook()]
    core.run_stage(ctx, S("canonical-rsmi", canon_case, [{"rsmi": s, "backend": b, "nvar": 2 if q else 5, "seed": rng.randrange(10 ** 9)}
                                                          for s in sample + tb for b in ("wl", "nauty")], shard=60))
    core.run_stage(ctx, S("standardise", std_case, [{"rsmi": s, "nvar": 3 if q else 8, "seed": rng.randrange(10 ** 9)} for s in (rng.sample(rx, 150) if q else rx) + tb]))
    aam = []
    for s in (rng.sample(rx, 120) if q else rx) + tb:
        for method in ("RC", "ITS"):
            ren, _ = chem.renumber_aam(s, rng)
            aam.append({"mapped": chem.reroot(ren, rng) if rng.random() < 0.5 else ren, "truth": s, "method": method, "how": "renumbered"})
            sw = swap_two_centre_maps(s, rng)
            if sw:
                aam.append({"mapped": sw, "truth": s, "method": method, "how": "two-centre-atoms-transposed"})
    core.run_stage(ctx, S("aam-validator", aam_case, aam, shard=120))
    bal = []
    for s in (rng.sample(rx, 150) if q else rx) + tb:
        r, p = s.split(">>")
        bal.append({"rsmi": s})
        fr = p.split(".")
        if len(fr) > 1:
            bal.append({"rsmi": r + ">>" + ".".join(fr[1:])})           # fragment deleted
        bal.append({"rsmi": r + ">>" + p + "." + fr[0]})                 # fragment duplicated
        bal.append({"rsmi": r + ".[H+]>>" + p})                          # charge-only / proton change
        bal.append({"rsmi": r + ".[Na+]>>" + p + ".[Na]"})               # same elements, different total charge
    core.run_stage(ctx, S("balance-check", bal_case, bal, shard=400))


def replay(ctx, data):
    fn = {"canonical-rsmi": canon_case, "standardise": std_case, "aam-validator": aam_case, "balance-check": bal_case}[data["stage"]]
    core.run_stage(ctx, S(data["stage"], fn, [data["input"]]))

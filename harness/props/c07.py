"""C07 - isomorphism verdicts and embeddings are correct; pre-filters and query history never change them."""
from __future__ import annotations

import random
from typing import Any, Dict, List

from harness import core, graphlib as gl

SELS = {"el": (["element"], ["order"]), "elch": (["element", "charge"], ["order"]),
        "chel": (["charge", "element"], ["order"])}      # the same selection as elch, attributes listed in the other order


def session_case(inp):
    """Realise the abstract graphs as shared networkx OBJECTS and run the query list in order."""
    from synkit.Graph.Matcher.graph_matcher import GraphMatcherEngine
    from synkit.Graph.Matcher.subgraph_matcher import SubgraphMatch
    from synkit.Graph.Matcher import graph_morphism as gmod
    rng = random.Random(inp["seed"])
    objs, ids = [], []
    for g in inp["graphs"]:
        G, i = gl.realise(g, rng)
        objs.append(G)
        ids.append(i)
    snaps = [gl.snapshot(G) for G in objs]
    views = {"el": [], "elch": [], "plain": [], "topo": []}
    c1, c2, c3, c4 = gl.Coder(), gl.Coder(), gl.Coder(), gl.Coder()
    for G, i in zip(objs, ids):
        views["el"].append(gl.project(G, *SELS["el"], c1, ids=i)[0])
        views["elch"].append(gl.project(G, *SELS["elch"], c2, ids=i)[0])
        views["plain"].append(gl.project(G, *SELS["elch"], c3, ids=i, hcount=False)[0])
        views["topo"].append(gl.project(G, SELS["elch"][0], [], c4, ids=i, hcount=False)[0])     # bond orders not selected
    engines: Dict[Any, Any] = {}

    def engine(sel, wl, unlimited):
        k = (sel, wl, unlimited)
        if k not in engines:
            na, ea = SELS[sel]
            engines[k] = GraphMatcherEngine(node_attrs=na, edge_attrs=ea, wl1_filter=wl, max_mappings=None if unlimited else 1)
        return engines[k]
    out = []
    for q in inp["queries"]:
        a, b = objs[q["a"] - 1], objs[q["b"] - 1]
        r = dict(q)
        if q["op"] == "iso":
            r["res"] = bool(engine(q["sel"], q["flag"], True).isomorphic(a, b))
        elif q["op"] == "emb":
            ms = engine(q["sel"], q["flag"], q["unlimited"]).get_mappings(a, b)
            r["res"] = [gl.map_to_seq(m, ids[q["b"] - 1], ids[q["a"] - 1]) if len(m) == b.number_of_nodes() else [0] * b.number_of_nodes() for m in ms]
        elif q["op"] == "sse":
            # the search engine's own cheap pre-filter (host a, pattern b): on or off, the result set is the same
            from synkit.Graph.Matcher.subgraph_matcher import SubgraphSearchEngine
            ms = SubgraphSearchEngine.find_subgraph_mappings(host=a, pattern=b, node_attrs=["element", "charge"], edge_attrs=["order"],
                                                             strategy="all", pre_filter=q["flag"])
            r["res"] = [gl.map_to_seq(m, ids[q["b"] - 1], ids[q["a"] - 1]) if len(m) == b.number_of_nodes() else [0] * b.number_of_nodes() for m in ms]
        elif q["op"] == "giso":
            if q["impl"] == "find_graph_isomorphism-default-edge-match":
                from networkx.algorithms.isomorphism import generic_node_match
                from operator import eq
                nm = generic_node_match(["element", "charge"], ["*", 0], [eq, eq])
                r["res"] = gmod.find_graph_isomorphism(a, b, node_match=nm, edge_match=None, use_defaults=True,
                                                       fast_invariant_check=q["flag"]) is not None
            elif q["impl"] == "find_graph_isomorphism-no-edge-attrs":
                from networkx.algorithms.isomorphism import generic_node_match
                from operator import eq
                nm = generic_node_match(["element", "charge"], ["*", 0], [eq, eq])
                r["res"] = gmod.find_graph_isomorphism(a, b, node_match=nm, edge_match=None, use_defaults=False,
                                                       fast_invariant_check=q["flag"]) is not None
            elif q["impl"] == "graph_isomorphism":
                r["res"] = bool(gmod.graph_isomorphism(a, b, use_defaults=True))
            else:
                from networkx.algorithms.isomorphism import generic_node_match, generic_edge_match
                from operator import eq
                nm = generic_node_match(["element", "charge"], ["*", 0], [eq, eq])
                em = generic_edge_match("order", 1, eq)
                r["res"] = gmod.find_graph_isomorphism(a, b, node_match=nm, edge_match=em, fast_invariant_check=q["flag"]) is not None
        elif q["op"] in ("sub-induced", "sub-mono"):
            ct = "induced" if q["op"] == "sub-induced" else "monomorphism"
            if q["impl"] == "SubgraphMatch.subgraph_isomorphism":
                r["res"] = bool(SubgraphMatch.subgraph_isomorphism(a, b, use_filter=q["flag"], check_type=ct))
            elif q["impl"] == "SubgraphMatch.is_subgraph":
                r["res"] = bool(SubgraphMatch.is_subgraph(a, b, use_filter=q["flag"], check_type=ct))
            else:
                r["res"] = bool(gmod.subgraph_isomorphism(a, b, use_filter=q["flag"], check_type=ct))
        else:
            raise core.MachineryError("bad op")
        out.append(r)
    if [gl.snapshot(G) for G in objs] != snaps:
        raise AssertionError("a query modified its input graphs")
    return {"g": views, "q": out}


def Q(op, sel, a, b, flag, impl="", unlimited=True):
    return {"op": op, "sel": sel, "a": a, "b": b, "flag": flag, "impl": impl, "unlimited": unlimited, "res": False}


def pair_queries(rng: random.Random) -> List[Dict[str, Any]]:
    """Full query battery on objects 1, 2 (and 3 = relabelled copy of 1), in random order so that the
    shared histogram cache is filled by different engines first."""
    qs = []
    for sel in ("el", "elch", "chel"):
        for wl in (False, True):
            for a, b in ((1, 2), (2, 1), (1, 3), (3, 2)):
                qs.append(Q("iso", sel, a, b, wl))
            for a, b in ((1, 2), (2, 1), (3, 2)):
                qs.append(Q("emb", sel, a, b, wl, unlimited=True))
            qs.append(Q("emb", sel, 2, 1, wl, unlimited=False))
    for flag in (False, True):
        qs.append(Q("giso", "plain", 1, 2, flag, impl="find_graph_isomorphism"))
        qs.append(Q("giso", "plain", 1, 3, flag, impl="find_graph_isomorphism"))
        qs.append(Q("giso", "topo", 1, 2, flag, impl="find_graph_isomorphism-no-edge-attrs"))
        qs.append(Q("giso", "topo", 3, 1, flag, impl="find_graph_isomorphism-no-edge-attrs"))
        qs.append(Q("giso", "plain", 1, 2, flag, impl="find_graph_isomorphism-default-edge-match"))
        qs.append(Q("giso", "plain", 3, 1, flag, impl="find_graph_isomorphism-default-edge-match"))
        qs.append(Q("sse", "elch", 1, 2, flag))
        qs.append(Q("sse", "elch", 2, 1, flag))
        for op in ("sub-induced", "sub-mono"):
            for impl in ("SubgraphMatch.subgraph_isomorphism", "graph_morphism.subgraph_isomorphism", "SubgraphMatch.is_subgraph"):
                qs.append(Q(op, "plain", 1, 2, flag, impl=impl))
                qs.append(Q(op, "plain", 2, 1, flag, impl=impl))
    qs.append(Q("giso", "plain", 1, 2, False, impl="graph_isomorphism"))
    qs.append(Q("giso", "plain", 3, 1, False, impl="graph_isomorphism"))
    rng.shuffle(qs)
    return qs


class S(core.Stage):
    module = "C07Cases"
    shard_size = 800
    nontrivial_rule = "at least one positive and one negative answer in the session"

    def __init__(self, name, inputs):
        self.name, self._inputs = name, inputs

    def inputs(self, ctx):
        return self._inputs

    def execute(self, inp):
        return session_case(inp)

    def nontrivial(self, c):
        pos = any((q["res"] is True) or (isinstance(q["res"], list) and q["res"]) for q in c["q"])
        neg = any((q["res"] is False) or (isinstance(q["res"], list) and not q["res"]) for q in c["q"])
        return pos and neg

    def tags(self, c):
        t = set()
        for q in c["q"]:
            if q["op"] == "emb" and q["res"] and c["g"]["el"][q["a"] - 1]["n"] > c["g"]["el"][q["b"] - 1]["n"]:
                t.add("proper-embedding-found")
            if q["op"] == "iso" and q["res"]:
                t.add("iso-true")
            if q["op"].startswith("sub") and q["res"] and q["flag"]:
                t.add("sub-true-with-filter")
        return sorted(t)


def sessions_from_pairs(rng, pairs):
    out = []
    for A, B in pairs:
        out.append({"graphs": [A, B, gl.permuted(A, rng)], "queries": pair_queries(rng), "seed": rng.randrange(10 ** 9)})
    return out


def history_sessions(rng: random.Random, n: int) -> List[Any]:
    """Objects that agree on elements but differ in charges, queried by engines with different selections
    (with the WL filter on) in random orders - the MatcherSession counterexample and its variations."""
    out = [{  # the TLC counterexample of MatcherSession (KeyedByAttrs = FALSE), verbatim
        "graphs": [{"n": 2, "lab": [1, 2], "hc": [0, 0], "adj": [[0, 1], [1, 0]]},
                   {"n": 2, "lab": [3, 2], "hc": [0, 0], "adj": [[0, 1], [1, 0]]},
                   {"n": 2, "lab": [2, 2], "hc": [0, 0], "adj": [[0, 1], [1, 0]]}],
        "queries": [Q("iso", "elch", 1, 1, True), Q("iso", "el", 2, 1, True), Q("iso", "el", 1, 2, True), Q("iso", "elch", 1, 2, True)],
        "seed": 1}]
    for _ in range(n):
        g1 = gl.random_graph(rng, rng.randint(2, 6), nlab=2, maxhc=1, maxord=2, connected=True)
        g2 = gl.permuted(g1, rng)
        k = rng.randrange(g2["n"])
        g2 = dict(g2, lab=list(g2["lab"]))
        g2["lab"][k] = {1: 3, 2: 5}[g2["lab"][k]]          # same element, different charge
        g3 = gl.permuted(g1, rng)
        graphs = [g1, g2, g3]
        qs = []
        for _ in range(rng.randint(3, 8)):
            a, b = rng.randint(1, 3), rng.randint(1, 3)
            qs.append(Q(rng.choice(["iso", "iso", "emb"]), rng.choice(["el", "elch"]), a, b, rng.random() < 0.8))
        out.append({"graphs": graphs, "queries": qs, "seed": rng.randrange(10 ** 9)})
    return out


def random_pairs(rng, n):
    out = []
    for _ in range(n):
        A = gl.random_graph(rng, rng.randint(2, 8), nlab=3, maxhc=1, maxord=2, connected=rng.random() < 0.7)
        r = rng.random()
        if r < 0.25:
            B = gl.permuted(A, rng)
        elif r < 0.5:                      # one-edit neighbour
            B = gl.permuted(A, rng)
            B = {"n": B["n"], "lab": list(B["lab"]), "hc": list(B["hc"]), "adj": [list(x) for x in B["adj"]]}
            e = rng.random()
            k = rng.randrange(B["n"])
            if e < 0.3:
                B["hc"][k] = 1 - B["hc"][k]
            elif e < 0.6:
                B["lab"][k] = rng.randint(1, 3)
            else:
                j = rng.randrange(B["n"])
                if j != k:
                    B["adj"][k][j] = B["adj"][j][k] = (B["adj"][k][j] + 1) % 3
        elif r < 0.8:                      # B contains A (planted), possibly non-induced
            extra = gl.random_graph(rng, rng.randint(1, 3), nlab=3, maxhc=1, maxord=2)
            B = gl.disjoint_union(A, extra)
            for u in range(A["n"]):
                for v in range(A["n"], B["n"]):
                    if rng.random() < 0.3:
                        B["adj"][u][v] = B["adj"][v][u] = rng.randint(1, 2)
            if rng.random() < 0.3 and A["n"] >= 2:
                u, v = rng.sample(range(A["n"]), 2)
                if not B["adj"][u][v]:
                    B["adj"][u][v] = B["adj"][v][u] = 1
            B = gl.permuted(B, rng)
            if B["n"] > 8:
                continue
        else:
            B = gl.random_graph(rng, rng.randint(2, 8), nlab=3, maxhc=1, maxord=2, connected=rng.random() < 0.7)
        out.append((A, B) if rng.random() < 0.5 else (B, A))
    return out


def run(ctx: core.Ctx) -> None:
    ctx.assumptions += ["TLC 1.8 + Json module trusted",
                        "isomorphic(a, b): the first argument is the host of the hcount rule (documented)",
                        "containment for get_mappings means induced embedding (the engine uses VF2 sub-graph isomorphism)"]
    q, rng = ctx.quick, ctx.rng
    # design level: query histories on shared objects
    core.model_check(ctx, "MatcherSession", defines={"KeyedByAttrs": "TRUE", "MaxQ": "4" if q else "5"}, label="MatcherSession-contract")
    core.model_check(ctx, "MatcherSession", defines={"KeyedByAttrs": "FALSE", "MaxQ": "4"}, label="MatcherSession-cache-keyed-by-object-only",
                     expect_violation=True)
    # the same contract for ANY number of earlier queries: inductive invariant discharged by Apalache
    core.apalache_inductive(ctx, "MC_MatcherSessionApa", label="MatcherSession-attr-keyed-cache-inductive-invariant")
    core.apalache_inductive(ctx, "MC_MatcherSessionApaObjKey", label="MatcherSession-object-keyed-cache-not-inductive", expect_step_failure=True)
    base = {"NLab": "3", "MaxHc": "1", "MaxOrd": "2", "CanonOnly": "TRUE", "MinN": "1"}
    g2 = core.tlc_generate(ctx, "GraphGen", dict(base, MaxN="2"), label="graphs<=2")
    g3 = core.tlc_generate(ctx, "GraphGen", dict(base, MaxN="3", NLab="2", MinN="3"), label="graphs=3")
    small = g2 + g3
    pairs = [(a, b) for a in g2 for b in g2]
    ctx.exhaustive = True
    core.run_stage(ctx, S("all-pairs<=2", sessions_from_pairs(rng, pairs)))
    n = 2500 if q else 60000
    core.run_stage(ctx, S("pairs<=3", sessions_from_pairs(rng, [(rng.choice(small), rng.choice(small)) for _ in range(n)])))
    g4 = core.tlc_generate(ctx, "GraphGen", {"MaxN": "4", "NLab": "2", "MaxHc": "0" if q else "1", "MaxOrd": "2", "CanonOnly": "TRUE", "MinN": "4"}, label="graphs=4")
    pool = small + g4
    core.run_stage(ctx, S("pairs<=4", sessions_from_pairs(rng, [(rng.choice(pool), rng.choice(g4 if rng.random() < 0.6 else pool)) for _ in range(1500 if q else 40000)])))
    core.run_stage(ctx, S("random<=8", sessions_from_pairs(rng, random_pairs(rng, 1000 if q else 25000))))
    core.run_stage(ctx, S("query-histories", history_sessions(rng, 800 if q else 20000)))


def replay(ctx, data):
    core.run_stage(ctx, S(data["stage"], [data["input"]]))

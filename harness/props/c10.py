"""C10 - changing representation (SMILES, graph, explicit/implicit H, GML) loses nothing."""
from __future__ import annotations

import random
import re
from typing import Any, Dict, List, Optional, Tuple

from rdkit import Chem

from harness import chem, core

ORD = {"-": 2, ":": 3, "=": 4, "#": 6}


# ------------------------------------------------------------------ independent GML reader
def parse_label(lab: str) -> Tuple[int, int]:
    m = re.fullmatch(r"([A-Za-z*]+?)(\d*)([+-]?)", lab)
    if not m:
        return (0, 99)
    el, num, sign = m.groups()
    ch = 0
    if sign:
        ch = int(num or 1) * (1 if sign == "+" else -1)
    elif num:
        return (0, 99)
    return (chem.elcode(el), ch)


def parse_gml(text: str) -> Optional[Dict[str, Any]]:
    """GML rule text -> abstract rule {n, lab [[elL, chL, elR, chR]], hc, adj (10*oL + oR)}"""
    secs = {}
    for name in ("left", "context", "right"):
        m = re.search(name + r"\s*\[(.*?)\n   \]", text, re.S)
        if not m:
            return None
        body = m.group(1)
        nodes = {int(a): b for a, b in re.findall(r'node \[ id (\d+) label "([^"]*)" \]', body)}
        edges = [(int(a), int(b), c) for a, b, c in re.findall(r'edge \[ source (\d+) target (\d+) label "([^"]*)" \]', body)]
        secs[name] = (nodes, edges)
    ids = sorted(set(secs["left"][0]) | set(secs["right"][0]) | set(secs["context"][0]))
    for _, es in secs.values():
        for a, b, _ in es:
            if a not in ids or b not in ids:
                return None
    idx = {v: k for k, v in enumerate(ids)}
    n = len(ids)
    lab = []
    for v in ids:
        if v in secs["context"][0]:
            l = r = parse_label(secs["context"][0][v])
        else:
            l = parse_label(secs["left"][0].get(v, "?"))
            r = parse_label(secs["right"][0].get(v, "?"))
        lab.append([l[0], l[1], r[0], r[1]])
    oL = [[0] * n for _ in range(n)]
    oR = [[0] * n for _ in range(n)]
    for sec, M in (("left", oL), ("right", oR)):
        for a, b, c in secs[sec][1]:
            M[idx[a]][idx[b]] = M[idx[b]][idx[a]] = ORD.get(c, 9)
    for a, b, c in secs["context"][1]:       # context bonds are present, unchanged, on both sides
        oL[idx[a]][idx[b]] = oL[idx[b]][idx[a]] = ORD.get(c, 9)
        oR[idx[a]][idx[b]] = oR[idx[b]][idx[a]] = ORD.get(c, 9)
    adj = [[10 * oL[u][v] + oR[u][v] for v in range(n)] for u in range(n)]
    return {"n": n, "lab": lab, "hc": [0] * n, "adj": adj}


def elw(sym) -> int:
    """element code with the wildcard '*' kept apart from unknown symbols"""
    return 200 if sym == "*" else chem.elcode(sym)


def its_rule_abs(I) -> Dict[str, Any]:
    """networkx ITS (as returned by gml_to_its) -> abstract rule in the same coding"""
    ids = list(I.nodes())
    idx = {v: k for k, v in enumerate(ids)}
    n = len(ids)
    lab = []
    for v in ids:
        gh = I.nodes[v].get("typesGH")
        lab.append([elw(gh[0][0]), int(gh[0][3]), elw(gh[1][0]), int(gh[1][3])])
    adj = [[0] * n for _ in range(n)]
    for u, v, d in I.edges(data=True):
        o = d.get("order", (0, 0))
        adj[idx[u]][idx[v]] = adj[idx[v]][idx[u]] = 10 * chem.o2(o[0]) + chem.o2(o[1])
    return {"n": n, "lab": lab, "hc": [0] * n, "adj": adj}


# ------------------------------------------------------------------ cases
def with_maps(smi: str) -> Optional[str]:
    m = chem.mol_from_smiles(smi)
    if m is None or m.GetNumAtoms() == 0:
        return None
    if any(a.GetNumRadicalElectrons() or a.GetIsotope() for a in m.GetAtoms()):
        return None
    for a in m.GetAtoms():
        a.SetAtomMapNum(a.GetIdx() + 1)
    return Chem.MolToSmiles(m)


def on_ids(ids_all, M, mids):
    pos = {m: k for k, m in enumerate(mids)}
    n = len(ids_all)
    t = [M["t"][pos[v]] if v in pos else [0, 0, 0, 0] for v in ids_all]
    adj = [[M["adj"][pos[u]][pos[v]] if u in pos and v in pos else 0 for v in ids_all] for u in ids_all]
    extra = [m for m in mids if m not in set(ids_all)]
    return {"n": n, "t": t, "adj": adj, "present": [1 if v in pos else 0 for v in ids_all]}, extra


def mol_case(inp):
    from synkit.IO.chem_converter import smiles_to_graph, graph_to_smi
    s = with_maps(inp["smiles"])
    if s is None:
        return {"_skip": "not-sanitisable-or-radical-or-isotope"}
    A, ids = chem.rdkit_abs(s)
    g = smiles_to_graph(s, use_index_as_atom_map=True)
    if g is None:
        raise AssertionError("smiles_to_graph returned None for a sanitisable molecule: " + s)
    extra_nodes = [v for v in g.nodes() if v not in set(ids)]
    B = chem.graph_abs(g, ids)
    if extra_nodes:
        B["present"] = [0] * len(ids)
    out = graph_to_smi(g)
    ok = isinstance(out, str) and bool(out)
    C = {"n": len(ids), "t": [[0, 0, 0, 0]] * len(ids), "adj": [[0] * len(ids) for _ in ids], "present": [0] * len(ids)}
    unm_out = ""
    if ok:
        x = chem.rdkit_abs(out)
        if x is None:
            ok = False
        else:
            C, extra = on_ids(ids, x[0], x[1])
            if extra:
                C["present"] = [0] * len(ids)
            unm_out = chem.unmapped(out)
    return {"kind": "mol", "A": A, "B": B, "C": C, "out_ok": ok, "unm_in": chem.unmapped(s), "unm_out": unm_out}


def hyd_case(inp):
    from synkit.IO.chem_converter import smiles_to_graph
    from synkit.Graph.Hyrogen._misc import h_to_explicit, h_to_implicit
    s = with_maps(inp["smiles"])
    if s is None:
        return {"_skip": "not-sanitisable-or-radical-or-isotope"}
    g = smiles_to_graph(s, use_index_as_atom_map=True)
    ids = sorted(g.nodes())
    before = chem.graph_abs(g, ids)
    partial = bool(inp.get("partial"))
    if partial:      # hydrogens made explicit on some atoms only: a graph that mixes both representations
        rng = random.Random(inp["smiles"])
        some = [v for v in ids if rng.random() < 0.6] or ids[:1]
        # ... and on some of those only part of the hydrogens: one atom then carries implicit and explicit hydrogens at once
        keep = {v: rng.randint(1, int(g.nodes[v].get("hcount", 0))) for v in some if int(g.nodes[v].get("hcount", 0) or 0) >= 2 and rng.random() < 0.6}
        e = h_to_explicit(g, some, keep=keep)
    else:
        e = h_to_explicit(g)
    i2 = h_to_implicit(e)
    if chem.graph_abs(g, ids) != before:
        raise AssertionError("h_to_explicit modified its input")
    new = sorted(v for v in e.nodes() if v not in set(ids))
    allids = ids + new
    I2 = chem.graph_abs(i2, allids)
    if any(v not in set(allids) for v in i2.nodes()):
        I2["present"] = [0] * len(allids)
    return {"kind": "hyd", "partial": partial, "B0": chem.graph_abs(g, allids), "E": chem.graph_abs(e, allids), "I2": I2}


def gml_case(inp):
    from synkit.IO.chem_converter import rsmi_to_its, its_to_gml, smart_to_gml, gml_to_its
    from synkit.Graph.ITS.its_decompose import get_rc
    rsmi = inp["rsmi"]
    r, p = rsmi.split(">>")
    a, b = chem.rdkit_abs(r), chem.rdkit_abs(p)
    if a is None or b is None or a[1] != b[1]:
        return {"_skip": "not-fully-mapped-or-unbalanced"}
    its = rsmi_to_its(rsmi)
    rc = get_rc(its)
    routes = []

    def add(name, core_, text):
        rule = parse_gml(text) if isinstance(text, str) else None
        if rule is None:
            rule = {"n": 0, "lab": [], "hc": [], "adj": []}
        routes.append({"name": name, "core": core_, "rule": rule, "aligned": ",reindex" not in name})
    for reindex in (False, True):
        tag = ",reindex" if reindex else ""
        add("smart_to_gml(core)" + tag, True, smart_to_gml(rsmi, core=True, reindex=reindex))
        add("its_to_gml(full-its,core)" + tag, True, its_to_gml(its, core=True, reindex=reindex))
        add("its_to_gml(centre,core)" + tag, True, its_to_gml(rc, core=True, reindex=reindex))
        add("smart_to_gml(full)" + tag, False, smart_to_gml(rsmi, core=False, reindex=reindex))
        add("its_to_gml(full-its,full)" + tag, False, its_to_gml(its, core=False, reindex=reindex))
    back = gml_to_its(its_to_gml(rc, core=True, reindex=inp["reindex"]))
    # a generic rule: one centre atom is a wildcard ('*', possibly charged) on both sides
    rcw = rc.copy()
    w = sorted(rcw.nodes())[len(rcw) // 2] if len(rcw) else None
    back_w = want_w = {"n": 0, "lab": [], "hc": [], "adj": []}
    if w is not None:
        gh = rcw.nodes[w]["typesGH"]
        rcw.nodes[w]["element"] = "*"
        rcw.nodes[w]["typesGH"] = (("*",) + tuple(gh[0][1:]), ("*",) + tuple(gh[1][1:]))
        want_w = its_rule_abs(rcw)
        try:
            back_w = its_rule_abs(gml_to_its(its_to_gml(rcw, core=True, reindex=False)))
        except Exception:
            back_w = {"n": 0, "lab": [], "hc": [], "adj": []}
    return {"kind": "gml", "G": a[0], "H": b[0], "routes": routes, "back": its_rule_abs(back), "back_w": back_w, "want_w": want_w}


class S(core.Stage):
    module = "C10Cases"

    def __init__(self, name, fn, inputs, shard=300):
        self.name, self.fn, self._inputs, self.shard_size = name, fn, inputs, shard
        self.nontrivial_rule = "molecule with >= 3 atoms / reaction with a non-empty centre"

    def inputs(self, ctx):
        return self._inputs

    def execute(self, inp):
        return self.fn(inp)

    def nontrivial(self, c):
        if c["kind"] == "gml":
            return c["G"] != c["H"]
        k = "A" if c["kind"] == "mol" else "B0"
        return sum(c[k]["present"]) >= 3

    def tags(self, c):
        if c["kind"] == "mol":
            t = []
            if any(x[1] for x in c["A"]["t"]):
                t.append("aromatic")
            if any(x[3] for x in c["A"]["t"]):
                t.append("charged")
            return t
        return []


def molecules() -> List[str]:
    ms = [l.strip() for l in (core.VERIF / "cases" / "molecules.txt").read_text().splitlines() if l.strip()]
    seen = set(ms)
    for r in chem.corpus():
        for side in r["rsmi"].split(">>"):
            for f in side.split("."):
                m = Chem.MolFromSmiles(f)
                if m is None:
                    continue
                for a in m.GetAtoms():
                    a.SetAtomMapNum(0)
                s = Chem.MolToSmiles(m)
                if s and s not in seen:
                    seen.add(s)
                    ms.append(s)
    return ms


def run(ctx: core.Ctx) -> None:
    ctx.assumptions += ["TLC 1.8 + Json module trusted", "RDKit parses/writes SMILES (projection only); stereochemistry is ignored, radicals and isotopes are excluded",
                        "the explicit/implicit-H round trip is claimed for graphs without explicit hydrogen atoms (decided by the spec)",
                        "GML text is read by an independent 40-line parser in the harness"]
    q, rng = ctx.quick, ctx.rng
    ms = molecules()
    if q:
        ms = ms[:60] + rng.sample(ms[60:], min(len(ms) - 60, 240))
    core.run_stage(ctx, S("molecules-smiles-graph-smiles", mol_case, [{"smiles": s} for s in ms]))
    core.run_stage(ctx, S("molecules-explicit-implicit-H", hyd_case, [{"smiles": s} for s in ms] + [{"smiles": s, "partial": True} for s in ms]))
    rx = []
    for r in chem.corpus():
        for how, s in chem.rewrites(r["rsmi"], rng, 1 if q else 6):
            if how in ("original", "renumber", "reverse", "fragments"):
                rx.append({"rsmi": s, "how": how, "reindex": rng.random() < 0.5})
    core.run_stage(ctx, S("reactions-gml-routes", gml_case, rx, shard=100))


def replay(ctx, data):
    fn = {"molecules-smiles-graph-smiles": mol_case, "molecules-explicit-implicit-H": hyd_case}.get(data["stage"], gml_case)
    core.run_stage(ctx, S(data["stage"], fn, [data["input"]]))

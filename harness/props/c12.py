"""C12 - maximum common subgraph results are valid and of maximum size."""
from __future__ import annotations

import random
from typing import Any, Dict, List

from harness import core, graphlib as gl

NODE_ATTRS = ["element", "charge"]
EDGE_ATTRS = ["order"]


def mcs_case(inp):
    from synkit.Graph.Matcher.mcs_matcher import MCSMatcher as M1
    from synkit.Graph.MTG.mcs_matcher import MCSMatcher as M2
    rng = random.Random(inp["seed"])
    G1, ids1 = gl.realise(inp["G1"], rng)
    G2, ids2 = gl.realise(inp["G2"], rng)
    coder = gl.Coder()
    a1, _ = gl.project(G1, NODE_ATTRS, EDGE_ATTRS, coder, ids=ids1, hcount=False)
    a2, _ = gl.project(G2, NODE_ATTRS, EDGE_ATTRS, coder, ids=ids2, hcount=False)
    i1 = {v: k + 1 for k, v in enumerate(ids1)}
    i2 = {v: k + 1 for k, v in enumerate(ids2)}

    def pairs(m, ia, ib):
        return [[ia.get(a, 0), ib.get(b, 0)] for a, b in m.items()]
    runs = []
    for mcs in (True, False):
        if not mcs and (inp["G1"]["n"] > 5 or inp["G2"]["n"] > 5):
            continue
        m = M1(node_attrs=NODE_ATTRS, node_defaults=["*", 0]).find_common_subgraph(G1, G2, mcs=mcs)
        runs.append({"impl": "matcher", "mcs": mcs, "hasdir": True, "size": int(m.last_size),
                     "g1g2": [pairs(x, i1, i2) for x in m.get_mappings("G1_to_G2")],
                     "g2g1": [pairs(x, i2, i1) for x in m.get_mappings("G2_to_G1")]})
        m2 = M2(node_label_names=NODE_ATTRS, node_label_defaults=["*", 0])
        m2.find_common_subgraph(G1, G2, mcs=mcs)
        runs.append({"impl": "mtg", "mcs": mcs, "hasdir": False, "size": int(m2.last_size),
                     "g1g2": [pairs(x, i1, i2) for x in m2.get_mappings()], "g2g1": []})
    # molecule-level matching (whole connected components are paired): every mapping must still be a valid common subgraph
    mm = M1(node_attrs=NODE_ATTRS, node_defaults=["*", 0]).find_common_subgraph(G1, G2, mcs_mol=True)
    runs.append({"impl": "matcher-molecule-level", "mcs": False, "hasdir": True, "size": int(mm.last_size),
                 "g1g2": [pairs(x, i1, i2) for x in mm.get_mappings("G1_to_G2")],
                 "g2g1": [pairs(x, i2, i1) for x in mm.get_mappings("G2_to_G1")]})
    # one matcher object used for an earlier, larger search (the graph against itself) and then for this pair:
    # the answer may not depend on what the object was asked before
    m = M1(node_attrs=NODE_ATTRS, node_defaults=["*", 0])
    m.find_common_subgraph(G1, G1.copy(), mcs=True)
    m = m.find_common_subgraph(G1, G2, mcs=True)
    runs.append({"impl": "matcher-reused", "mcs": True, "hasdir": True, "size": int(m.last_size),
                 "g1g2": [pairs(x, i1, i2) for x in m.get_mappings("G1_to_G2")],
                 "g2g1": [pairs(x, i2, i1) for x in m.get_mappings("G2_to_G1")]})
    m2 = M2(node_label_names=NODE_ATTRS, node_label_defaults=["*", 0])
    m2.find_common_subgraph(G1, G1.copy(), mcs=True)
    m2.find_common_subgraph(G1, G2, mcs=True)
    runs.append({"impl": "mtg-reused", "mcs": True, "hasdir": False, "size": int(m2.last_size),
                 "g1g2": [pairs(x, i1, i2) for x in m2.get_mappings()], "g2g1": []})
    return {"G1": a1, "G2": a2, "runs": runs}


class S(core.Stage):
    module = "C12Cases"
    shard_size = 1200
    nontrivial_rule = "maximum common subgraph of size >= 2"

    def __init__(self, name, inputs):
        self.name, self._inputs = name, inputs

    def inputs(self, ctx):
        return self._inputs

    def execute(self, inp):
        return mcs_case(inp)

    def nontrivial(self, c):
        return c["runs"][0]["size"] >= 2

    def tags(self, c):
        r = c["runs"][0]
        t = ["mcs-size=%d" % min(r["size"], 4)]
        if c["G1"]["n"] > c["G2"]["n"]:
            t.append("G1-larger")
        if r["size"] < min(c["G1"]["n"], c["G2"]["n"]):
            t.append("proper-common-part")
        return t


def random_pairs(rng: random.Random, n: int) -> List[Any]:
    out = []
    for _ in range(n):
        a = gl.random_graph(rng, rng.randint(2, 6), nlab=3, maxord=3, connected=rng.random() < 0.6)
        r = rng.random()
        if r < 0.3:
            b = gl.permuted(a, rng)
        elif r < 0.65:       # planted common part plus different decorations
            k = rng.randint(1, a["n"])
            core_ = gl.induced(a, rng.sample(range(a["n"]), k))
            extra = gl.random_graph(rng, rng.randint(1, 7 - min(k, 6)) if k < 7 else 1, nlab=3, maxord=3)
            b = gl.disjoint_union(core_, extra)
            for u in range(core_["n"]):
                for v in range(core_["n"], b["n"]):
                    if rng.random() < 0.25:
                        b["adj"][u][v] = b["adj"][v][u] = rng.randint(1, 3)
            b = gl.permuted(b, rng)
        elif r < 0.8:        # several copies of one fragment on both sides, numbered differently
            frag = gl.random_graph(rng, rng.randint(2, 3), nlab=2, maxord=2, connected=True)
            a = gl.disjoint_union(frag, gl.permuted(frag, rng))
            if rng.random() < 0.5 and a["n"] + frag["n"] <= 7:
                a = gl.disjoint_union(a, gl.random_graph(rng, 1, nlab=3))
            b = gl.permuted(frag, rng) if rng.random() < 0.5 else gl.permuted(gl.disjoint_union(frag, gl.permuted(frag, rng)), rng)
        else:
            b = gl.random_graph(rng, rng.randint(2, 7), nlab=3, maxord=3, connected=rng.random() < 0.5)
        if b["n"] > 7:
            b = gl.induced(b, list(range(7)))
        if rng.random() < 0.5:
            a, b = b, a
        out.append({"G1": a, "G2": b, "seed": rng.randrange(10 ** 9)})
    return out


def run(ctx: core.Ctx) -> None:
    ctx.assumptions += ["TLC 1.8 + Json module trusted", "node labels: element and charge; edge label: order"]
    q, rng = ctx.quick, ctx.rng
    base = {"NLab": "2", "MaxHc": "0", "MaxOrd": "2", "CanonOnly": "TRUE", "MinN": "1"}
    g3 = core.tlc_generate(ctx, "GraphGen", dict(base, MaxN="3"), label="graphs<=3")
    allp = [{"G1": a, "G2": b, "seed": rng.randrange(10 ** 9)} for a in g3 for b in g3]
    if q:
        allp = rng.sample(allp, 2500)
    else:
        ctx.exhaustive = True
    core.run_stage(ctx, S("pairs<=3", allp))
    g4 = core.tlc_generate(ctx, "GraphGen", dict(base, MaxN="4", MinN="4"), label="graphs=4")
    g34 = g3 + g4
    core.run_stage(ctx, S("pairs<=4", [{"G1": rng.choice(g34), "G2": rng.choice(g4) if rng.random() < 0.5 else rng.choice(g34),
                                         "seed": rng.randrange(10 ** 9)} for _ in range(1500 if q else 60000)]))
    core.run_stage(ctx, S("random-6x7", random_pairs(rng, 500 if q else 12000)))


def replay(ctx, data):
    core.run_stage(ctx, S(data["stage"], [data["input"]]))

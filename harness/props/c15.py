"""C15 - reaction-network store stays consistent under every history of edits.

design level : MC_CRNStore (two-store state machine) model-checked by TLC:
               StoresOK, StepConforms (every model step satisfies the relation used on
               traces), Durable, CopyIsolated.
code -> spec : histories executed on the real CRNHyperGraph (all command sequences up to a
               depth over a fixed alphabet + long random histories over a larger alphabet),
               every call validated by CRNStoreTrace (= CRNStore!StepClauses + derived indices).
"""
from __future__ import annotations

import itertools
import random
from typing import Any, Dict, List

from harness import core

SIDES = {
    "0": {}, "A": {"A": 1}, "B": {"B": 1}, "C": {"C": 1}, "AB": {"A": 1, "B": 1}, "2A": {"A": 2},
    "A2B": {"A": 1, "B": 2}, "BC": {"B": 1, "C": 1}, "D": {"D": 1}, "3C": {"C": 3}, "AD": {"A": 1, "D": 2},
}


def cmd(op, x="A", id="", rule="", l="0", r="0", s="", prune=False, prefix=False, how="dict"):
    return {"op": op, "x": x, "id": id, "rule": rule, "l": l, "r": r, "s": s, "prune": prune,
            "prefix": prefix, "how": how}


# alphabet for the exhaustive enumeration (3 species, 2 rules, explicit ids that look generated)
ALPHABET = (
    [cmd("addgen", rule="r", l=l, r=r) for l, r in [("A", "B"), ("AB", "C"), ("2A", "0"), ("0", "C"), ("B", "A"), ("0", "0")]]
    + [cmd("addgen", rule="q", l="A", r="B"), cmd("addgen", rule="r", l="AB", r="2A")]   # incl. a catalytic reaction
    + [cmd("add", id="r_1", rule="r", l="A", r="B"), cmd("add", id="r_1", rule="r", l="B", r="C"),
       cmd("add", id="r_2", rule="r", l="A", r="B"), cmd("add", id="x", rule="q", l="2A", r="B")]
    + [cmd("rmrxn", id=i) for i in ("r_1", "r_2", "x")]
    + [cmd("rmsp", s="A", prune=True), cmd("rmsp", s="A", prune=False), cmd("rmsp", s="B", prune=True),
       cmd("rmsp", s="C", prune=False)]
    + [cmd("merge", x="A", prefix=True), cmd("merge", x="A", prefix=False), cmd("merge", x="B", prefix=False),
       cmd("copy", x="A"), cmd("rmsp", x="B", s="A", prune=True), cmd("rmrxn", x="B", id="r_1")]
    + [cmd("mol", s="A")]
)
PRELUDE = [cmd("add", x="B", id="r_1", rule="r", l="A", r="B"), cmd("addgen", x="B", rule="q", l="B", r="C")]


def project(H) -> Dict[str, Any]:
    """Public attributes of a CRNHyperGraph as abstract JSON (never mutates the defaultdicts)."""
    edges = {}
    idok = True
    for k, e in H.edges.items():
        edges[str(k)] = {"rule": e.rule, "l": {str(a): int(b) for a, b in e.reactants.data.items()},
                         "r": {str(a): int(b) for a, b in e.products.data.items()}}
        idok = idok and (e.id == k)
    species = sorted(H.species)
    keys_in = set(species) | {s for s, v in H.species_to_in_edges.items() if v}
    keys_out = set(species) | {s for s, v in H.species_to_out_edges.items() if v}
    inx = {s: sorted(H.species_to_in_edges.get(s, ())) for s in sorted(keys_in)}
    outx = {s: sorted(H.species_to_out_edges.get(s, ())) for s in sorted(keys_out)}
    sp, ed, m = H.incidence_matrix(sparse=True)
    sp2, ed2, d = H.incidence_matrix(sparse=False)
    if list(sp) != list(sp2) or list(ed) != list(ed2):
        d = [[99]]  # axes differ between the two views: force the dense clause to fail
    else:
        d = [[int(v) for v in row] for row in d.tolist()]
    return {"edges": edges, "species": species, "mol": {str(k): str(v) for k, v in H.species_to_mol.items()},
            "inx": inx, "outx": outx, "idok": idok,
            "inc": {"sp": list(sp), "ed": list(ed), "m": [[s, e, int(v)] for (s, e), v in m.items()], "d": d}}


def _side(name: str, how: str):
    from synkit.CRN.Hypergraph.rxn import RXNSide
    d = SIDES[name]
    if how == "dict":
        return dict(d)
    if how == "rxnside":
        return RXNSide.from_any(dict(d))
    if how == "list":
        return [s for s, c in d.items() for _ in range(c)]
    return [(s, c) for s, c in d.items()]


def run_history(cmds: List[Dict[str, Any]]) -> Dict[str, Any]:
    from synkit.CRN.Hypergraph.hypergraph import CRNHyperGraph
    st = {"A": CRNHyperGraph(), "B": CRNHyperGraph()}
    ev = []
    for c in cmds:
        x = c["x"]
        y = "B" if x == "A" else "A"
        H = st[x]
        err = ""
        cid = c["id"]
        try:
            if c["op"] == "addgen":
                e = H.add_rxn(_side(c["l"], c["how"]), _side(c["r"], c["how"]), rule=c["rule"])
                cid = e.id
            elif c["op"] == "add":
                H.add_rxn(_side(c["l"], c["how"]), _side(c["r"], c["how"]), rule=c["rule"], edge_id=c["id"])
            elif c["op"] == "rmrxn":
                H.remove_rxn(c["id"])
            elif c["op"] == "rmsp":
                H.remove_species(c["s"], prune_orphans=c["prune"])
            elif c["op"] == "merge":
                H.merge(st[y], prefix_edges=c["prefix"])
            elif c["op"] == "copy":
                st[y] = H.copy()
            elif c["op"] == "mol":
                H.assign_mol(c["s"], "m_" + c["s"])
            else:
                raise core.MachineryError("bad op " + c["op"])
        except (KeyError, ValueError) as e:
            err = type(e).__name__
        ev.append({"x": x, "err": err,
                   "c": {"op": c["op"], "id": cid, "rule": c["rule"] or "r", "l": SIDES[c["l"]], "r": SIDES[c["r"]],
                         "s": c["s"], "prune": c["prune"]},
                   "post": {"A": project(st["A"]), "B": project(st["B"])}})
    return {"ev": ev}


class Histories(core.Stage):
    module = "CRNStoreTrace"
    shard_size = 1500
    nontrivial_rule = "history with at least one successful mutation"

    def __init__(self, name: str, inputs: List[Any]):
        self.name = name
        self._inputs = inputs

    def inputs(self, ctx):
        return self._inputs

    def execute(self, inp):
        return run_history(inp)

    def nontrivial(self, case):
        return any(e["err"] == "" and e["c"]["op"] != "mol" for e in case["ev"])


def exhaustive(depth: int) -> List[Any]:
    out = []
    for d in range(1, depth + 1):
        for seq in itertools.product(range(len(ALPHABET)), repeat=d):
            out.append(PRELUDE + [ALPHABET[k] for k in seq])
    return out


def sampled(rng: random.Random, depth: int, n: int) -> List[Any]:
    return [PRELUDE + [rng.choice(ALPHABET) for _ in range(depth)] for _ in range(n)]


def random_long(rng: random.Random, n: int, length: int) -> List[Any]:
    sides = list(SIDES)
    species = ["A", "B", "C", "D"]
    rules = ["r", "q", "k", "r_1"]           # a rule whose generated ids look like other ids
    ids = ["r_1", "r_2", "r_3", "q_1", "k_1", "r_1_1", "x", "y"]
    hows = ["dict", "rxnside", "list", "pairs"]
    out = []
    for _ in range(n):
        h = []
        for _ in range(length):
            x = rng.choice("AAB")
            p = rng.random()
            if p < 0.28:
                h.append(cmd("addgen", x=x, rule=rng.choice(rules), l=rng.choice(sides), r=rng.choice(sides), how=rng.choice(hows)))
            elif p < 0.50:
                h.append(cmd("add", x=x, id=rng.choice(ids), rule=rng.choice(rules), l=rng.choice(sides), r=rng.choice(sides), how=rng.choice(hows)))
            elif p < 0.64:
                h.append(cmd("rmrxn", x=x, id=rng.choice(ids)))
            elif p < 0.80:
                h.append(cmd("rmsp", x=x, s=rng.choice(species), prune=rng.random() < 0.6))
            elif p < 0.88:
                h.append(cmd("merge", x=x, prefix=rng.random() < 0.5))
            elif p < 0.93:
                h.append(cmd("copy", x=x))
            else:
                h.append(cmd("mol", x=x, s=rng.choice(species)))
        out.append(h)
    return out


def run(ctx: core.Ctx) -> None:
    ctx.assumptions += [
        "TLC 1.8 and the CommunityModules Json reader are trusted",
        "the projection harness/props/c15.py:project reads public attributes only",
        "species order inside incidence axes is compared as a set (TLC cannot order strings)",
    ]
    q = ctx.quick
    # ---- design level -----------------------------------------------------
    core.model_check(ctx, "MC_CRNStore", label="one-store",
                     defines={"MaxLive": "1" if q else "2", "Rules": '{"r"}', "TwoStores": "FALSE", "SmallMenu": "FALSE", "GenCollides": "FALSE"},
                     timeout=1800)
    core.model_check(ctx, "MC_CRNStore", label="two-stores",
                     defines={"MaxLive": "1" if q else "2", "Rules": '{"r"}', "TwoStores": "TRUE", "SmallMenu": "TRUE", "GenCollides": "FALSE"},
                     timeout=1800)
    # the store as it was before the repair of the generated-id collision: TLC must find a reaction that is overwritten
    core.model_check(ctx, "MC_CRNStore", label="one-store-generated-id-may-collide", expect_violation=True,
                     defines={"MaxLive": "2", "Rules": '{"r"}', "TwoStores": "FALSE", "SmallMenu": "TRUE", "GenCollides": "TRUE"}, timeout=1800)
    # ---- code -> spec -----------------------------------------------------
    depth = 3 if q else 4
    core.run_stage(ctx, Histories(f"exhaustive-depth{depth}", exhaustive(depth)))
    ctx.exhaustive = True
    core.run_stage(ctx, Histories("sampled-depth5", sampled(ctx.rng, 5, 3000 if q else 60000)))
    core.run_stage(ctx, Histories("random-long", random_long(ctx.rng, 300 if q else 6000, 60)))


def replay(ctx: core.Ctx, data: Dict[str, Any]) -> None:
    core.run_stage(ctx, Histories(data["stage"], [data["input"]]))

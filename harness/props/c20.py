"""C20 - siphons, traps, firing and pathway realizability match their Petri-net definitions."""
from __future__ import annotations

import random
from typing import Any, Dict, List

from harness import core, crnlib


def st_case(net):
    from synkit.CRN.Petri.structure import find_siphons, find_traps
    H = crnlib.build(net)
    return {"kind": "st", "net": net, "maxsize": 0, "siphons": [sorted(x) for x in find_siphons(H)],
            "traps": [sorted(x) for x in find_traps(H)]}


def st_variant_case(inp):
    """the same answers through PetriAnalyzer, from the bipartite graph, and with a size limit"""
    from synkit.CRN.Petri.structure import find_siphons, find_traps
    from synkit.CRN.Petri.analyzer import PetriAnalyzer
    from synkit.CRN.Hypergraph.conversion import hypergraph_to_bipartite
    net, how = inp["net"], inp["how"]
    H = crnlib.build(net)
    if how == "analyzer":
        a = PetriAnalyzer(H).compute_siphons_traps()
        return {"kind": "st", "net": net, "maxsize": 0, "siphons": [sorted(x) for x in a.siphons], "traps": [sorted(x) for x in a.traps]}
    if how == "bipartite":
        G = hypergraph_to_bipartite(H)
        return {"kind": "st", "net": net, "maxsize": 0, "siphons": [sorted(x) for x in find_siphons(G)], "traps": [sorted(x) for x in find_traps(G)]}
    k = inp["k"]
    return {"kind": "st", "net": net, "maxsize": k, "siphons": [sorted(x) for x in find_siphons(H, max_size=k)],
            "traps": [sorted(x) for x in find_traps(H, max_size=k)]}


def fire_case(inp):
    from synkit.CRN.Petri.net import PetriNet
    net = PetriNet()
    net.add_transition("t", dict(inp["pre"]), dict(inp["post"]))
    m = dict(inp["m"])
    en = bool(net.enabled(m, "t"))
    fired = net.fire(m, "t")
    return {"kind": "fire", "m": inp["m"], "m_after": {k: int(v) for k, v in m.items()}, "pre": inp["pre"], "post": inp["post"],
            "enabled": en, "fired": {str(k): int(v) for k, v in fired.items()}}


def real_case(inp):
    from synkit.CRN.Path.realizability import PathwayRealizability, hypergraph_to_pr_inputs
    net, flow = inp["net"], inp["flow"]
    H = crnlib.build(net)
    ids = [e["id"] for e in net["rx"]]
    v, e, f = hypergraph_to_pr_inputs(H, {i: n for i, n in zip(ids, flow)})
    pr = PathwayRealizability().load_hypergraph_and_flow(v, e, f).build_petri_net_from_flow()
    for call in inp.get("pre", []):       # earlier queries on the same object must not change the answer
        if call == "konig":
            pr.is_realizable_via_konig()
        elif call == "scaled":
            pr.is_scaled_realizable(k_max=2)
        elif call == "borrow":
            pr.is_borrow_realizable(max_borrow_each=1)
        elif call == "real":
            pr.is_realizable()
    ok, cert = pr.is_realizable()
    cert = cert or []
    return {"kind": "real", "net": net, "flow": flow, "ok": bool(ok), "cert": [ids.index(t) + 1 for t in cert]}


class S(core.Stage):
    module = "C20Cases"
    shard_size = 2500

    def __init__(self, name, fn, inputs, rule):
        self.name, self.fn, self._inputs, self.nontrivial_rule = name, fn, inputs, rule
        if name == "realizability-random":
            self.required_tags = ("realizable", "unrealizable", "cert>=3")

    def inputs(self, ctx):
        return self._inputs

    def execute(self, inp):
        return self.fn(inp)

    def tags(self, c):
        if c["kind"] == "real":
            return ["realizable" if c["ok"] else "unrealizable"] + (["cert>=3"] if len(c["cert"]) >= 3 else [])
        if c["kind"] == "st":
            return (["has-siphon"] if c["siphons"] else []) + (["has-trap"] if c["traps"] else []) + \
                   (["siphon-size>=2"] if any(len(x) >= 2 for x in c["siphons"]) else [])
        return ["enabled" if c["enabled"] else "disabled"]

    def nontrivial(self, c):
        if c["kind"] == "st":
            return len(c["net"]["rx"]) >= 2
        if c["kind"] == "real":
            return sum(c["flow"]) >= 2
        return True


def rand_flow_cases(rng: random.Random, n: int) -> List[Any]:
    out = []
    while len(out) < n:
        net = crnlib.random_net(rng, 5, 5, 2)
        p = rng.random()
        if p < 0.5:
            # plant a realizable pathway: walk the net from the empty marking with source/sink help
            flow = [rng.randint(0, 2) for _ in net["rx"]]
        else:
            flow = [rng.randint(0, 3) for _ in net["rx"]]
        if sum(flow) == 0:
            continue
        out.append({"net": net, "flow": flow})
    return out


def planted_cases(rng: random.Random, n: int) -> List[Any]:
    """Open pathways with a balanced flow (S f = 0) by construction: source, chain / branch, sinks.
    Most are realizable, but only in some firing orders; variants with an autocatalytic step or a
    perturbed flow are not."""
    out = []
    for _ in range(n):
        k = rng.randint(1, 3)
        names = [chr(ord("A") + i) for i in range(k)]
        c = rng.randint(1, 2)
        f = rng.randint(1, 2)
        rx = [({}, {names[0]: c}, f)]
        for a, b in zip(names, names[1:]):
            rx.append(({a: 1}, {b: 1}, c * f))
        style = rng.random()
        if style < 0.35:                         # branch at the end: X -> Y + Z, both drained
            rx.append(({names[-1]: 1}, {"Y": 1, "Z": 1}, c * f))
            rx.append(({"Y": 1}, {}, c * f))
            rx.append(({"Z": 1}, {}, c * f))
        elif style < 0.55 and c == 2:            # dimerising sink
            rx.append(({names[-1]: 2}, {}, f))
        else:
            rx.append(({names[-1]: 1}, {}, c * f))
        if rng.random() < 0.25 and k >= 2:       # balanced but needs a borrowed token: unrealizable cycle
            rx.append(({names[0]: 1, "Q": 1}, {names[1]: 1, "Q": 1}, 0))
            rx.append(({"Q": 1}, {"P": 1}, 1))
            rx.append(({"P": 1}, {"Q": 1}, 1))
        rng.shuffle(rx)
        net = crnlib.norm_net({"rx": [{"id": f"r_{j+1}", "rule": "r", "l": l, "r": r} for j, (l, r, _) in enumerate(rx)]})
        flow = [fl for (_, _, fl) in rx]
        if rng.random() < 0.2:
            j = rng.randrange(len(flow))
            flow[j] = max(0, flow[j] + rng.choice([-1, 1]))
        if sum(flow):
            out.append({"net": net, "flow": flow})
    return out


def balanced_cases(rng: random.Random, n: int) -> List[Any]:
    """Random internal reactions with a random flow, balanced by construction with one source or sink reaction per
    species that is left over: many active reactions, catalytic and interleaved steps, mostly realizable but only
    in some firing orders (the search has to come back to a marking through another transition)."""
    out = []
    species = ["A", "B", "C", "D"]
    while len(out) < n:
        rx = []
        for _ in range(rng.randint(2, 5)):
            l = {s: 1 for s in rng.sample(species, rng.randint(0, 2))}
            r = {s: 1 for s in rng.sample(species, rng.randint(0, 2))}
            if l != r:
                rx.append((l, r, rng.randint(0, 2)))
        if len(rx) < 2:
            continue
        net_change = {s: 0 for s in species}
        for l, r, f in rx:
            for x in l:
                net_change[x] -= f
            for x in r:
                net_change[x] += f
        for x in species:
            if net_change[x] > 0:
                rx.append(({x: 1}, {}, net_change[x]))
            elif net_change[x] < 0:
                rx.append(({}, {x: 1}, -net_change[x]))
        if not any(f for _, _, f in rx):
            continue
        rng.shuffle(rx)
        seen, uniq = set(), []
        for l, r, f in rx:                      # the abstract networks are sets of reactions
            k = (tuple(sorted(l.items())), tuple(sorted(r.items())))
            if k not in seen:
                seen.add(k)
                uniq.append((l, r, f))
        net = crnlib.norm_net({"rx": [{"id": f"r_{j+1}", "rule": "r", "l": l, "r": r} for j, (l, r, _) in enumerate(uniq)]})
        out.append({"net": net, "flow": [f for _, _, f in uniq]})
    return out


def fire_inputs(rng: random.Random, n: int) -> List[Any]:
    out = []
    names = ["A", "B", "C", "D"]
    for _ in range(n):
        def ms(lo):
            return {s: rng.randint(lo, 3) for s in rng.sample(names, rng.randint(0, 3))}
        out.append({"m": {s: rng.randint(0, 3) for s in rng.sample(names, rng.randint(0, 4))}, "pre": ms(1), "post": ms(1)})
    return out


def run(ctx: core.Ctx) -> None:
    ctx.assumptions += ["TLC 1.8 + Json module trusted",
                        "realizability cases keep flows small so that the implementation's default search bounds (1e5 markings) are never reached"]
    q = ctx.quick
    gen = core.tlc_generate(ctx, "NetGen", {"MaxCoef": "1", "MaxRx": "3", "Dup": "FALSE"}, label="unit-rx3")
    nets = [crnlib.norm_net(n) for n in gen]
    core.run_stage(ctx, S("siphons-traps-exhaustive-unit-rx3", st_case, nets, "network with >= 2 reactions"))
    ctx.exhaustive = True
    core.run_stage(ctx, S("siphons-traps-textbook", st_case, [crnlib.parse(v) for v in crnlib.TEXTBOOK.values()], ""))
    core.run_stage(ctx, S("siphons-traps-random", st_case,
                          [crnlib.random_net(ctx.rng, 6, 6, 2) for _ in range(800 if q else 20000)], ""))
    var = []
    for _ in range(600 if q else 12000):
        n = crnlib.random_net(ctx.rng, 6, 6, 2)
        how = ctx.rng.choice(["analyzer", "bipartite", "limited"])
        var.append({"net": n, "how": how, "k": ctx.rng.randint(1, 3)})
    core.run_stage(ctx, S("siphons-traps-other-entry-points", st_variant_case, var, ""))
    core.run_stage(ctx, S("fire-enabled", fire_case, fire_inputs(ctx.rng, 3000 if q else 60000), "every case"))
    # realizability: all flows in 0..2 on the exhaustive unit networks with <= 2 reactions (quick: sample), random beyond
    small = [n for n in nets if len(n["rx"]) <= 2]
    allflows = []
    for n in small:
        k = len(n["rx"])
        for f in ([[a] for a in (1, 2)] if k == 1 else [[a, b] for a in range(3) for b in range(3) if a + b]):
            allflows.append({"net": n, "flow": f})
    if q:
        allflows = ctx.rng.sample(allflows, 4000)
    core.run_stage(ctx, S("realizability-exhaustive-unit-rx2", real_case, allflows, "total flow >= 2"))
    rnd = rand_flow_cases(ctx.rng, 600 if q else 15000) + planted_cases(ctx.rng, 400 if q else 8000) + balanced_cases(ctx.rng, 800 if q else 15000)
    core.run_stage(ctx, S("realizability-random", real_case, rnd, "total flow >= 2"))
    hist = []
    for c in ctx.rng.sample(rnd, min(len(rnd), 500 if q else 6000)):
        if len(c["net"]["sp"]) <= 5:
            pre = [ctx.rng.choice(["konig", "scaled", "borrow", "real"]) for _ in range(ctx.rng.randint(1, 3))]
            hist.append({"net": c["net"], "flow": c["flow"], "pre": pre})
    core.run_stage(ctx, S("realizability-after-other-queries", real_case, hist, "total flow >= 2"))
    # design level: native exploration of the same extended nets (never negative, state equation, agreement lemma)
    import json, tempfile
    from pathlib import Path
    sub = rnd[: (300 if q else 3000)]
    p = Path(tempfile.mkdtemp(dir=ctx.scratch)) / "nets.ndjson"
    p.write_text("".join(core.cj(c) + "\n" for c in sub))
    core.model_check(ctx, "MC_Petri", env={"CASES": str(p)}, label="native-reachability", timeout=1800)


def replay(ctx, data):
    st = data["stage"]
    fn = st_variant_case if st.startswith("siphons-traps-other") else st_case if st.startswith("siphons") else fire_case if st.startswith("fire") else real_case
    core.run_stage(ctx, S(st, fn, [data["input"]], ""))

"""Shared helpers for the reaction-network properties (C16-C20): abstract networks <-> CRNHyperGraph."""
from __future__ import annotations

import random
from typing import Any, Dict, List


def norm_side(s) -> Dict[str, int]:
    """TLC serialises the empty function as []; normalise to {}."""
    if isinstance(s, list):
        assert not s
        return {}
    return {str(k): int(v) for k, v in s.items()}


def norm_net(net: Dict[str, Any]) -> Dict[str, Any]:
    rx = []
    for k, e in enumerate(net["rx"]):
        rx.append({"id": e.get("id", f"r_{k+1}"), "rule": e.get("rule", "r"),
                   "l": norm_side(e["l"]), "r": norm_side(e["r"])})
    sp = sorted({s for e in rx for s in list(e["l"]) + list(e["r"])})
    return {"sp": sp, "rx": rx}


def build(net: Dict[str, Any]):
    """Abstract network -> real CRNHyperGraph (explicit ids)."""
    from synkit.CRN.Hypergraph.hypergraph import CRNHyperGraph
    H = CRNHyperGraph()
    for e in net["rx"]:
        H.add_rxn(dict(e["l"]), dict(e["r"]), rule=e["rule"], edge_id=e["id"])
    return H


def random_net(rng: random.Random, max_sp: int, max_rx: int, max_coef: int, *, min_rx: int = 1,
               allow_empty_side: bool = True, names=None) -> Dict[str, Any]:
    nsp = rng.randint(2, max_sp)
    names = names or [chr(ord("A") + i) for i in range(nsp)]
    names = names[:nsp]
    nrx = rng.randint(min_rx, max_rx)
    rx = []
    for k in range(nrx):
        while True:
            def side():
                if allow_empty_side and rng.random() < 0.12:
                    return {}
                m = rng.choice([1, 1, 1, 2, 2, 3])
                d: Dict[str, int] = {}
                for s in rng.sample(names, min(m, len(names))):
                    d[s] = rng.randint(1, max_coef)
                return d
            l, r = side(), side()
            if l or r:
                break
        if rx and rng.random() < 0.15:         # reverse or duplicate of an earlier reaction
            e = rng.choice(rx)
            l, r = (dict(e["r"]), dict(e["l"])) if rng.random() < 0.7 else (dict(e["l"]), dict(e["r"]))
        rx.append({"id": f"r_{k+1}", "rule": rng.choice(["r", "r", "q"]), "l": l, "r": r})
    return norm_net({"rx": rx})


def parse(rxns: List[str]) -> Dict[str, Any]:
    """'A+2B>>C' strings -> abstract network (tiny independent parser for the textbook cases)."""
    rx = []
    for k, s in enumerate(rxns):
        l, r = s.split(">>")

        def side(t):
            d: Dict[str, int] = {}
            for part in t.split("+"):
                part = part.strip()
                if not part or part == "0":
                    continue
                n = ""
                while part and part[0].isdigit():
                    n += part[0]
                    part = part[1:]
                d[part] = d.get(part, 0) + int(n or 1)
            return d
        rx.append({"id": f"r_{k+1}", "rule": "r", "l": side(l), "r": side(r)})
    return norm_net({"rx": rx})


TEXTBOOK = {
    "rev_A+B_C": ["A+B>>C", "C>>A+B"],
    "chain": ["A>>B", "B>>C"],
    "rev_chain": ["A>>B", "B>>A", "B>>C", "C>>B"],
    "cycle3": ["A>>B", "B>>C", "C>>A"],
    "open": ["0>>A", "A>>B", "B>>0"],
    "edelstein": ["A>>2A", "2A>>A", "A+B>>C", "C>>A+B", "C>>B", "B>>C"],
    "futile": ["S+E>>ES", "ES>>S+E", "ES>>P+E", "P+F>>PF", "PF>>P+F", "PF>>S+F"],
    "michaelis": ["S+E>>ES", "ES>>S+E", "ES>>P+E"],
    "lotka": ["A>>2A", "A+B>>2B", "B>>0"],
    "brusselator": ["0>>X", "2X+Y>>3X", "X>>Y", "X>>0"],
    "decay": ["A>>0"],
    "autocat": ["A+B>>2B", "B>>A"],
    "two_cycles": ["A>>B", "B>>A", "C>>D", "D>>C"],
    "A_B_B_C": ["A>>B", "B>>A", "B>>C"],
    "swap": ["C+B>>F+A"],
    "dimer": ["2A>>B", "B>>2A", "B+C>>D", "D>>B+C"],
}

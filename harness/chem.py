"""Chemistry-side projection and metamorphic rewriters (RDKit used only as SMILES <-> atoms/bonds projector)."""
from __future__ import annotations

import json
import random
import re
from typing import Any, Dict, List, Optional, Tuple

import networkx as nx
from rdkit import Chem, RDLogger

from harness import core

RDLogger.DisableLog("rdApp.*")
_PT = Chem.GetPeriodicTable()


def corpus() -> List[Dict[str, str]]:
    rx = json.loads((core.VERIF / "cases" / "reactions.json").read_text())
    out = []
    for r in rx:
        s = r["rsmi"]
        if s.count(">>") != 1 or s.count(">") != 2 or not all(s.split(">>")):
            continue
        # every fragment must be a SMILES RDKit can read (a trailing '.' leaves an empty, invalid fragment)
        if any((not f) or Chem.MolFromSmiles(f) is None for side in s.split(">>") for f in side.split(".")):
            continue
        out.append(r)
    return out


def elcode(sym: Any) -> int:
    """element symbol -> atomic number (H = 1, the code ITS.tla treats as hydrogen); unknown / wildcard -> 0"""
    if not isinstance(sym, str):
        return 0
    try:
        return int(_PT.GetAtomicNumber(sym))
    except Exception:
        return 0


def enc_label(x):
    """a node label as JSON value compared for equality only (tuples become lists, integral floats become ints)"""
    if isinstance(x, (tuple, list)):
        return [enc_label(y) for y in x]
    if isinstance(x, bool) or x is None:
        return int(bool(x))
    if isinstance(x, (int, float)):
        return int(x) if float(x).is_integer() else int(round(float(x) * 1000))
    return elcode(x) if isinstance(x, str) else 0


def o2(x) -> int:
    return int(round(float(x) * 2)) if x is not None else 0


# ---------------------------------------------------------------- networkx -> abstract
def node_t(d: Dict[str, Any]) -> List[int]:
    return [elcode(d.get("element")), int(bool(d.get("aromatic", False))), int(d.get("hcount", 0) or 0), int(d.get("charge", 0) or 0)]


def graph_abs(G: nx.Graph, ids: List[Any]) -> Dict[str, Any]:
    """molecule graph (element, aromatic, hcount, charge; order) restricted/ordered by ids; absent nodes get t = [0,0,0,0]"""
    idx = {v: k for k, v in enumerate(ids)}
    n = len(ids)
    t = [node_t(G.nodes[v]) if v in G else [0, 0, 0, 0] for v in ids]
    adj = [[0] * n for _ in range(n)]
    for u, v, d in G.edges(data=True):
        if u in idx and v in idx:
            adj[idx[u]][idx[v]] = adj[idx[v]][idx[u]] = o2(d.get("order", 0))
    return {"n": n, "t": t, "adj": adj, "present": [1 if v in G else 0 for v in ids]}


def tgh(x) -> List[int]:
    return [elcode(x[0]), int(bool(x[1])), int(x[2] or 0), int(x[3] or 0)]


def its_abs(I: nx.Graph, ids: List[Any]) -> Dict[str, Any]:
    idx = {v: k for k, v in enumerate(ids)}
    n = len(ids)
    tG, tH = [], []
    for v in ids:
        gh = I.nodes[v].get("typesGH")
        tG.append(tgh(gh[0]) if gh else [0, 0, 0, 0])
        tH.append(tgh(gh[1]) if gh else [0, 0, 0, 0])
    oG = [[0] * n for _ in range(n)]
    oH = [[0] * n for _ in range(n)]
    std = [[0] * n for _ in range(n)]
    for u, v, d in I.edges(data=True):
        if u not in idx or v not in idx:
            continue
        a, b = idx[u], idx[v]
        o = d.get("order", (0, 0))
        if not isinstance(o, (tuple, list)):
            o = (o, o)
        oG[a][b] = oG[b][a] = o2(o[0])
        oH[a][b] = oH[b][a] = o2(o[1])
        s = d.get("standard_order", 0)
        std[a][b] = std[b][a] = o2(s if isinstance(s, (int, float)) else 0)
    # the node's own (top-level) labels, next to the (before, after) pair: [element, charge]
    top = [[enc_label(I.nodes[v].get("element")), enc_label(I.nodes[v].get("charge", 0))] if v in I else [0, 0] for v in ids]
    return {"n": n, "tG": tG, "tH": tH, "oG": oG, "oH": oH, "std": std, "top": top, "extra_nodes": len([v for v in I.nodes() if v not in idx])}


def sub_abs(S: nx.Graph, ids: List[Any]) -> Dict[str, Any]:
    """a sub-ITS (reaction centre / context) relative to the node order `ids` of its parent"""
    idx = {v: k + 1 for k, v in enumerate(ids)}
    nodes, t, edges, top = [], [], [], []
    for v, d in S.nodes(data=True):
        nodes.append(idx.get(v, 0))
        top.append([enc_label(d.get("element")), enc_label(d.get("charge", 0))])
        gh = d.get("typesGH")
        t.append([tgh(gh[0]), tgh(gh[1])] if gh else [[0, 0, 0, 0], [0, 0, 0, 0]])
    for u, v, d in S.edges(data=True):
        o = d.get("order", (0, 0))
        if not isinstance(o, (tuple, list)):
            o = (o, o)
        s = d.get("standard_order", 0)
        edges.append([idx.get(u, 0), idx.get(v, 0), o2(o[0]), o2(o[1]), o2(s if isinstance(s, (int, float)) else 0)])
    return {"nodes": nodes, "t": t, "edges": edges, "top": top}


# ---------------------------------------------------------------- RDKit -> abstract (independent of MolToGraph)
def mol_from_smiles(smi: str):
    """parse keeping explicit (mapped) hydrogens as atoms, like the library does"""
    m = Chem.MolFromSmiles(smi, sanitize=False)
    if m is None:
        return None
    try:
        Chem.SanitizeMol(m)
    except Exception:
        return None
    return m


def rdkit_abs(smi: str) -> Optional[Tuple[Dict[str, Any], List[int]]]:
    """atoms/bonds of a mapped SMILES read directly from RDKit; node order = increasing atom map"""
    m = mol_from_smiles(smi)
    if m is None:
        return None
    atoms = [a for a in m.GetAtoms() if a.GetAtomMapNum() > 0]
    atoms.sort(key=lambda a: a.GetAtomMapNum())
    ids = [a.GetAtomMapNum() for a in atoms]
    if len(set(ids)) != len(ids):
        return None
    pos = {a.GetIdx(): k for k, a in enumerate(atoms)}
    n = len(atoms)
    t = [[a.GetAtomicNum(), int(a.GetIsAromatic()), a.GetTotalNumHs(), a.GetFormalCharge()] for a in atoms]
    adj = [[0] * n for _ in range(n)]
    for b in m.GetBonds():
        i, j = b.GetBeginAtomIdx(), b.GetEndAtomIdx()
        if i in pos and j in pos:
            adj[pos[i]][pos[j]] = adj[pos[j]][pos[i]] = o2(b.GetBondTypeAsDouble())
    return {"n": n, "t": t, "adj": adj, "present": [1] * n}, ids


def unmapped(smi: str) -> str:
    """canonical SMILES of a side with atom maps removed (string, compared for equality only)"""
    m = mol_from_smiles(smi)
    if m is None:
        return "?"
    for a in m.GetAtoms():
        a.SetAtomMapNum(0)
    Chem.RemoveStereochemistry(m)      # the graph layer does not carry stereochemistry
    try:
        m = Chem.RemoveHs(m)
    except Exception:
        pass
    # re-parse the unmapped string so that both sides of a comparison went through the same writer
    m2 = Chem.MolFromSmiles(Chem.MolToSmiles(m))
    return Chem.MolToSmiles(m2) if m2 is not None else Chem.MolToSmiles(m)


def skeleton(smi: str) -> str:
    """A key that does not depend on where a Kekule structure puts its double bonds: connectivity, elements, charges and
    per-atom hydrogen counts, every bond written as single.  (A product in which a formerly aromatic ring is no longer
    aromatic is written by RDKit with one of several equivalent bond placements, depending on the atom order.)"""
    m = mol_from_smiles(smi)
    if m is None:
        return "?"
    for a in m.GetAtoms():
        a.SetAtomMapNum(0)
    Chem.RemoveStereochemistry(m)
    try:
        m = Chem.RemoveHs(m)
    except Exception:
        pass
    rw = Chem.RWMol(m)
    for a in rw.GetAtoms():
        h = a.GetTotalNumHs()
        a.SetNoImplicit(True)
        a.SetNumExplicitHs(h)
        a.SetIsAromatic(False)
        a.SetNumRadicalElectrons(0)
    for b in rw.GetBonds():
        b.SetBondType(Chem.BondType.SINGLE)
        b.SetIsAromatic(False)
    return Chem.MolToSmiles(rw)


# ---------------------------------------------------------------- metamorphic rewriters
def renumber_aam(rsmi: str, rng: random.Random) -> Tuple[str, Dict[int, int]]:
    maps = sorted({int(x) for x in re.findall(r":(\d+)\]", rsmi)})
    perm = maps[:]
    rng.shuffle(perm)
    pi = dict(zip(maps, perm))
    out = re.sub(r":(\d+)\]", lambda m: ":%d]" % pi[int(m.group(1))], rsmi)
    return out, pi


def reroot_side(side: str, rng: random.Random) -> str:
    frags = side.split(".")
    out = []
    for f in frags:
        m = mol_from_smiles(f)
        if m is None or m.GetNumAtoms() == 0:
            out.append(f)
            continue
        # keep explicit mapped hydrogens as written: use random atom ordering of the parsed molecule
        order = list(range(m.GetNumAtoms()))
        rng.shuffle(order)
        m2 = Chem.RenumberAtoms(m, order)
        out.append(Chem.MolToSmiles(m2, canonical=False))
    rng.shuffle(out)
    return ".".join(out)


def reroot(rsmi: str, rng: random.Random) -> str:
    r, p = rsmi.split(">>")
    return reroot_side(r, rng) + ">>" + reroot_side(p, rng)


def shuffle_fragments(rsmi: str, rng: random.Random) -> str:
    r, p = rsmi.split(">>")
    a, b = r.split("."), p.split(".")
    rng.shuffle(a)
    rng.shuffle(b)
    return ".".join(a) + ">>" + ".".join(b)


def reverse(rsmi: str) -> str:
    r, p = rsmi.split(">>")
    return p + ">>" + r


def rewrites(rsmi: str, rng: random.Random, k: int) -> List[Tuple[str, str]]:
    out = [("original", rsmi)]
    for _ in range(k):
        how = rng.choice(["renumber", "reroot", "fragments", "reverse", "renumber+reroot"])
        s = rsmi
        if "renumber" in how:
            s, _ = renumber_aam(s, rng)
        if "reroot" in how:
            s = reroot(s, rng)
        if how == "fragments":
            s = shuffle_fragments(s, rng)
        if how == "reverse":
            s = reverse(s)
        out.append((how, s))
    return out

"""Recording SynCRN.build as a history of its own methods, and replaying TLC behaviours of MC_Expansion into it.

No hook in the repository is needed: the build loop is made of overridable methods
(_init_pool, _make_tasks_for_step, _run_tasks, _integrate_results); a subclass logs, after
each of them, the arguments / results and a projection of the object's state.  The
projection maps species keys (canonical SMILES without atom maps) to their rank in the
string order the code sorts them in, and rule indices to 1-based numbers.
"""
from __future__ import annotations

from typing import Any, Dict, List, Optional, Tuple

from harness import core

# ------------------------------------------------------------------ scripted chemistry (spec -> code)
# species of the model are 1..N; the code sees these strings (already canonical, sorted as strings in this order)
ALPHABET = ["C", "CC", "CCC", "CCCC", "CCCCC", "CCCCCC"]
_SCRIPT: Dict[Tuple[int, Tuple[str, ...]], List[str]] = {}
_UNSCRIPTED: List[Any] = []


def _scripted_worker(args):
    idx, rule, substrate, explicit_h, implicit_temp, strategy, reactant_keys = args
    key = (int(idx), tuple(reactant_keys))
    if key not in _SCRIPT:
        return idx, reactant_keys, ["*unscripted*"]
    return idx, reactant_keys, list(_SCRIPT[key])


def rule_string(arity: int) -> str:
    return ".".join("[C:%d]" % (k + 1) for k in range(arity)) + ">>" + ".".join("[C:%d]" % (k + 1) for k in range(arity))


# ------------------------------------------------------------------ recorder
def make_recorder():
    from synkit.CRN.DAG.syncrn import SynCRN

    class Rec(SynCRN):
        def __post_init__(self):
            super().__post_init__()
            self.log: List[Dict[str, Any]] = []

        # raw snapshot (keys as strings); converted to ranks once every key of the case is known
        def snap(self, pool, frontier):
            g = self.graph
            nodes = []
            for n, d in g.nodes(data=True):
                if d.get("kind") == "species":
                    nodes.append((n, {"kind": "s", "key": d.get("smiles_nomap")}))
                else:
                    nodes.append((n, {"kind": "e", "step": int(d.get("step")), "rule": int(d.get("rule_index")) + 1, "app": int(d.get("app_index"))}))
            return {"pool": sorted(pool), "frontier": sorted(frontier), "nodes": nodes, "edges": [[u, v] for u, v in g.edges()],
                    "delta": [[0 if k[0] is None else k[0] + 1, list(k[1]), list(k[2])] for k in self._seen_delta],
                    "seen": [[k[0] + 1, list(k[1])] for k in self._seen_attempts]}

        def resolve(self, smi):
            std = self._standardize_smiles(smi)
            return None if std is None else self._canonical_nomap(std)

        def _init_pool(self, seeds):
            seeds = list(seeds)
            pool, frontier = super()._init_pool(seeds)
            self._pool = pool
            self.log.append({"ev": "init", "seeds": [k for k in (self.resolve(s) for s in seeds) if k is not None], "snap": self.snap(pool, frontier)})
            return pool, frontier

        def _make_tasks_for_step(self, pool_keys, frontier_keys, step):
            tasks = super()._make_tasks_for_step(pool_keys, frontier_keys, step)
            self.log.append({"ev": "make", "step": step, "tasks": [[t[0] + 1, list(t[6])] for t in tasks],
                             "seen": [[k[0] + 1, list(k[1])] for k in self._seen_attempts]})
            return tasks

        def _run_tasks(self, tasks, *, parallel, max_workers):
            results = super()._run_tasks(tasks, parallel=parallel, max_workers=max_workers)
            out = []
            for idx, mix, prods in results:
                pm = []
                for p in prods:
                    p = (p or "").strip()
                    if not p:
                        continue
                    pm.append([k for k in (self.resolve(s) for s in p.split(".") if s) if k is not None])
                out.append({"r": idx + 1, "mix": list(mix), "prods": pm})
            self.log.append({"ev": "run", "results": out})
            return results

        def _integrate_results(self, results, pool_keys, step):
            nxt = super()._integrate_results(results, pool_keys, step)
            self.log.append({"ev": "integrate", "step": step, "snap": self.snap(pool_keys, nxt)})
            return nxt

    return Rec


def cfg_of(crn, arities: List[int]) -> Dict[str, Any]:
    return {"arity": arities, "maxComp": crn.max_components, "useFrontier": bool(crn.use_frontier), "capMix": int(crn.max_mixtures_per_rule_step),
            "capTasks": int(crn.max_tasks_per_step), "skipNoChange": bool(crn.skip_no_change), "allowEmpty": bool(crn.allow_empty_side),
            "dedupDelta": bool(crn.dedup_delta), "dedupAcross": bool(crn.dedup_across_rules), "repeats": int(crn.repeats)}


def lhs_arity(rule: str) -> int:
    lhs = rule.split(">>", 1)[0]
    n = len([p for p in lhs.split(".") if p.strip()])
    return n if n >= 1 else 2


# ------------------------------------------------------------------ projection to the spec's vocabulary
def project_runs(logs: List[Tuple[str, List[Dict[str, Any]]]]) -> List[Dict[str, Any]]:
    keys = set()

    def collect(x):
        if isinstance(x, str):
            keys.add(x)
        elif isinstance(x, dict):
            for k, v in x.items():
                if k not in ("kind", "ev"):
                    collect(v)
        elif isinstance(x, (list, tuple)):
            for v in x:
                collect(v)
    for _, log in logs:
        for e in log:
            collect({k: v for k, v in e.items() if k != "ev"})
    rank = {k: i + 1 for i, k in enumerate(sorted(keys))}      # the code sorts species keys as strings

    def sp(x):
        return rank[x]

    def snap(s):
        ids = {n: i + 1 for i, (n, _) in enumerate(s["nodes"])}
        if [n for n, _ in s["nodes"]] != sorted(ids):
            raise core.MachineryError("node ids are not allocated in increasing order")
        nodes = [dict(d, key=sp(d["key"])) if d["kind"] == "s" else d for _, d in s["nodes"]]
        return {"pool": [sp(k) for k in s["pool"]], "frontier": [sp(k) for k in s["frontier"]], "nodes": nodes,
                "edges": [[ids[u], ids[v]] for u, v in s["edges"]],
                "delta": [[d[0], [sp(k) for k in d[1]], [sp(k) for k in d[2]]] for d in s["delta"]],
                "seen": [[t[0], [sp(k) for k in t[1]]] for t in s["seen"]]}
    runs = []
    for mode, log in logs:
        run: Dict[str, Any] = {"mode": mode, "seeds": [], "init": None, "steps": []}
        cur: Optional[Dict[str, Any]] = None
        for e in log:
            if e["ev"] == "init":
                run["seeds"] = [sp(k) for k in e["seeds"]]
                run["init"] = snap(e["snap"])
            elif e["ev"] == "make":
                cur = {"tasks": [[t[0], [sp(k) for k in t[1]]] for t in e["tasks"]], "seen": [[t[0], [sp(k) for k in t[1]]] for t in e["seen"]],
                       "ran": False, "results": [], "post": run["init"]}
                run["steps"].append(cur)
            elif e["ev"] == "run":
                cur["results"] = [{"r": r["r"], "mix": [sp(k) for k in r["mix"]], "prods": [[sp(k) for k in pm] for pm in r["prods"]]} for r in e["results"]]
            elif e["ev"] == "integrate":
                cur["ran"] = True
                cur["post"] = snap(e["snap"])
            elif e["ev"] == "flat":
                run["flat"] = {"cfg": e["cfg"], "list": [dict(x, r=[sp(k) for k in x["r"]], p=[sp(k) for k in x["p"]]) for x in e["list"]]}
        if run["init"] is None:
            raise core.MachineryError("build never initialised its pool")
        runs.append(run)
    return runs


def flatten(crn, *, skip_no_change=True, allow_empty_side=False, deduplicate=True) -> Dict[str, Any]:
    """ReactionDeltaFlattener on the finished network, with species as their keys (raw; ranked by project_runs callers)"""
    from synkit.CRN.DAG.syncrn import ReactionDeltaFlattener
    g = crn.graph
    key_of = {d["smiles"]: d["smiles_nomap"] for _, d in g.nodes(data=True) if d.get("kind") == "species"}
    ids = {n: i + 1 for i, n in enumerate(g.nodes())}
    fl = ReactionDeltaFlattener(graph=g, skip_no_change=skip_no_change, allow_empty_side=allow_empty_side, deduplicate=deduplicate).build()
    return {"cfg": {"skipNoChange": bool(skip_no_change), "allowEmpty": bool(allow_empty_side), "deduplicate": bool(deduplicate)},
            "list": [{"id": ids[r["rxn_id"]], "step": int(r["step"]), "rule": int(r["rule_index"]) + 1, "app": int(r["app_index"]),
                      "r": [key_of[x] for x in r["reactants"]], "p": [key_of[x] for x in r["products"]]} for r in fl.reactions]}


def record_build(rules: List[Any], seeds: List[str], *, parallel: bool, workers: Optional[int], scripted: bool = False,
                 flat: Optional[Dict[str, Any]] = None, **kw):
    """One build of a recording SynCRN; returns (crn, log)."""
    import synkit.CRN.DAG.syncrn as mod
    Rec = make_recorder()
    crn = Rec(rules=list(rules), **kw)
    orig = mod._apply_rule_worker
    if scripted:
        mod._apply_rule_worker = _scripted_worker
    try:
        crn.build(list(seeds), parallel=parallel, max_workers=workers)
    finally:
        mod._apply_rule_worker = orig
    if flat is not None:
        crn.log.append(dict(flatten(crn, **flat), ev="flat"))
    return crn, crn.log


# ------------------------------------------------------------------ spec -> code: one dumped behaviour of MC_Expansion
def replay_behaviour(beh: Dict[str, Any], cfg: Dict[str, Any], modes=(("serial", False, None),)) -> Dict[str, Any]:
    """Run the real class on the chemistry TLC chose; the case carries what TLC computed as `expect`."""
    hist = beh["hist"]
    name = lambda i: ALPHABET[i - 1]
    _SCRIPT.clear()
    for step in hist["steps"]:
        for res in step:
            _SCRIPT[(res["r"] - 1, tuple(name(i) for i in res["mix"]))] = [".".join(name(i) for i in pm) for pm in res["prods"]]
    rules = [rule_string(a) for a in cfg["arity"]]
    seeds = [name(i) for i in hist["seeds"]]
    kw = dict(repeats=cfg["repeats"], max_components=cfg["maxComp"], use_frontier=cfg["useFrontier"], max_mixtures_per_rule_step=cfg["capMix"],
              max_tasks_per_step=cfg["capTasks"], skip_no_change=cfg["skipNoChange"], allow_empty_side=cfg["allowEmpty"],
              dedup_delta=cfg["dedupDelta"], dedup_across_rules=cfg["dedupAcross"], keep_aam=False)
    logs = []
    for mode, par, w in modes:
        _, log = record_build(rules, seeds, parallel=par, workers=w, scripted=True, flat=beh.get("flat"), **kw)
        logs.append((mode, log))
    runs = project_runs_fixed(logs)
    return {"cfg": cfg, "runs": runs, "expect": {"pool": beh["pool"], "nodes": beh["nodes"], "edges": beh["edges"], "nseen": beh["nseen"]}}


def project_runs_fixed(logs):
    """projection with the fixed alphabet (species i is ALPHABET[i-1]; '*unscripted*' would not parse and never becomes a species)"""
    rank = {k: i + 1 for i, k in enumerate(ALPHABET)}
    # reuse project_runs but with the fixed ranking: every key must be in the alphabet
    runs = project_runs(logs)
    # project_runs ranks only the keys that occur; re-rank to the alphabet
    keys = set()
    for _, log in logs:
        for e in log:
            _collect_keys(e, keys)
    occurring = sorted(keys)
    if any(k not in rank for k in occurring):
        raise core.MachineryError("species outside the scripted alphabet: %r" % [k for k in occurring if k not in rank])
    remap = {i + 1: rank[k] for i, k in enumerate(occurring)}
    return _remap(runs, remap)


def _collect_keys(x, keys):
    if isinstance(x, str):
        keys.add(x)
    elif isinstance(x, dict):
        for k, v in x.items():
            if k not in ("kind", "ev"):
                _collect_keys(v, keys)
    elif isinstance(x, (list, tuple)):
        for v in x:
            _collect_keys(v, keys)


def _remap(runs, remap):
    def snap(s):
        return {"pool": sorted(remap[k] for k in s["pool"]), "frontier": sorted(remap[k] for k in s["frontier"]),
                "nodes": [dict(d, key=remap[d["key"]]) if d["kind"] == "s" else d for d in s["nodes"]], "edges": s["edges"],
                "delta": [[d[0], [remap[k] for k in d[1]], [remap[k] for k in d[2]]] for d in s["delta"]],
                "seen": [[t[0], [remap[k] for k in t[1]]] for t in s["seen"]]}
    out = []
    for r in runs:
        extra = {}
        if "flat" in r:
            extra["flat"] = {"cfg": r["flat"]["cfg"], "list": [dict(x, r=[remap[k] for k in x["r"]], p=[remap[k] for k in x["p"]]) for x in r["flat"]["list"]]}
        out.append({**extra, "mode": r["mode"], "seeds": [remap[k] for k in r["seeds"]], "init": snap(r["init"]),
                    "steps": [{"tasks": [[t[0], [remap[k] for k in t[1]]] for t in s["tasks"]], "seen": [[t[0], [remap[k] for k in t[1]]] for t in s["seen"]],
                               "ran": s["ran"], "results": [{"r": x["r"], "mix": [remap[k] for k in x["mix"]], "prods": [[remap[k] for k in pm] for pm in x["prods"]]} for x in s["results"]],
                               "post": snap(s["post"])} for s in r["steps"]]})
    return out

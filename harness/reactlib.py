"""Shared driver for the rule-application properties (C03, C04, C05, C11-pruning, C14)."""
from __future__ import annotations

import random
from typing import Any, Dict, List, Optional, Tuple

import networkx as nx
from rdkit import Chem

from harness import chem, core


def templates(n_max: Optional[int] = None) -> List[Dict[str, Any]]:
    """corpus reactions usable as templates/substrates: fully mapped, same atoms on both sides"""
    out = []
    for r in chem.corpus():
        a, b = r["rsmi"].split(">>")
        x, y = chem.rdkit_abs(a), chem.rdkit_abs(b)
        if x is None or y is None or x[1] != y[1] or not x[1]:
            continue
        out.append({"id": r["src"] + ":" + r["id"], "rsmi": r["rsmi"], "natoms": len(x[1])})
        if n_max and len(out) >= n_max:
            break
    return out


def textbook() -> List[Dict[str, Any]]:
    import json
    return json.loads((core.VERIF / "cases" / "templates.json").read_text())


def unmapped_side(side: str) -> str:
    m = chem.mol_from_smiles(side)
    for a in m.GetAtoms():
        a.SetAtomMapNum(0)
    m = Chem.RemoveHs(m)
    return Chem.MolToSmiles(m)


def rule_mode(rc: nx.Graph) -> str:
    return "explicit" if any(d.get("element") == "H" for _, d in rc.nodes(data=True)) else "implicit"


def make_reactor(substrate, template, *, invert: bool, strategy: str, mode: str, automorphism: bool = False):
    from synkit.Synthesis.Reactor.syn_reactor import SynReactor
    if mode == "rendered":
        return SynReactor(substrate, template, invert=invert, strategy=strategy, automorphism=automorphism)
    if mode in ("implicit", "implicit-x"):
        return SynReactor(substrate, template, invert=invert, explicit_h=False, implicit_temp=True, strategy=strategy, automorphism=automorphism)
    return SynReactor(substrate, template, invert=invert, explicit_h=True, implicit_temp=False, strategy=strategy, automorphism=automorphism)


def host_mol_abs(host: nx.Graph, L: List[Any]) -> Dict[str, Any]:
    return chem.graph_abs(host, L)


def result_case(reactor, mode: str, max_results: int = 12) -> Optional[Dict[str, Any]]:
    """project host, rule and its_list of a reactor onto one index list"""
    host = reactor.graph.raw
    rc = reactor.rule.rc.raw
    its_list = reactor.its_list
    maps = reactor.mappings
    hids = sorted(host.nodes())
    extra = sorted({v for I in its_list for v in I.nodes() if v not in set(hids)}, key=lambda x: (str(type(x)), x))
    L = hids + extra
    rids = sorted(rc.nodes())
    results = []
    aligned = mode == "implicit" and len(maps) == len(its_list)
    for k, I in enumerate(its_list[:max_results]):
        # a graph whose SMILES cannot be written is dropped by smarts_list: it is not a "reaction returned"
        try:
            if not reactor._to_smarts(I):
                continue
        except Exception:
            continue
        m = []
        if aligned:
            mm = maps[k]
            pos = {v: i + 1 for i, v in enumerate(L)}
            m = [pos.get(mm.get(p), 0) for p in rids]
            if 0 in m:
                m = []
        if all(v in I for v in L):
            results.append({"its": strip(chem.its_abs(I, L)), "m": m})
        else:
            # this result renders other hydrogens as atoms than its siblings: it gets its own index list (and the substrate on it)
            hs = set(hids)
            Lk = hids + sorted((v for v in I.nodes() if v not in hs), key=lambda x: (str(type(x)), x))
            results.append({"its": strip(chem.its_abs(I, Lk)), "m": [], "host": host_mol_abs(host, Lk)})
    return {"host": host_mol_abs(host, L), "rc": strip(chem.its_abs(rc, rids)), "mode": mode, "results": results,
            "n_its": len(its_list), "n_maps": len(maps)}


def strip(I: Dict[str, Any]) -> Dict[str, Any]:
    I = dict(I)
    I.pop("std", None)
    I.pop("extra_nodes", None)
    return I


def raw_reactor(R, substrate, template, *, invert, strategy, mode):
    """A second reactor with the same configuration whose match list is the RAW output of the subgraph search
    (symmetry pruning switched off by pre-seeding the lazy `_mappings` cache): 'applying the rule at every match'."""
    from synkit.Graph.Hyrogen._misc import has_XH, h_to_implicit
    from synkit.Graph.Matcher.subgraph_matcher import SubgraphSearchEngine
    from synkit.Synthesis.Reactor.strategy import Strategy
    pat = R.rule.left.raw
    flag = bool(has_XH(pat))
    if flag:
        pat = h_to_implicit(pat)
    raw = SubgraphSearchEngine.find_subgraph_mappings(host=R.graph.raw, pattern=pat, node_attrs=["element", "charge"], edge_attrs=["order"],
                                                      strategy=Strategy.from_string(R.strategy), threshold=R.embed_threshold,
                                                      pre_filter=R.embed_pre_filter)
    R2 = make_reactor(substrate, template, invert=invert, strategy=strategy, mode=mode)
    _ = R2.rule, R2.graph
    R2._mappings = list(raw)
    R2._flag_pattern_has_explicit_H = flag
    return R2, len(raw)


def prune_model(R, substrate, template, *, invert, strategy, mode, keyfn, max_raw: int = 120):
    """Data for Prune.tla: the pattern the code prunes on, every raw match (in the order of the search) and the
    distinct reactions obtained at each single match.  None when there are too many raw matches to replay one by one."""
    from synkit.Graph.Hyrogen._misc import has_XH, h_to_implicit
    from synkit.Graph.Matcher.subgraph_matcher import SubgraphSearchEngine
    from synkit.Synthesis.Reactor.strategy import Strategy
    try:
        from synkit.Graph.Wildcard.wildcard import has_wildcard_node, remove_wildcard_nodes   # noqa: F401
    except Exception:
        has_wildcard_node = None
    pat = R.rule.left.raw
    flag = bool(has_XH(pat))
    if flag:
        pat = h_to_implicit(pat)
    if any(d.get("element") == "*" for _, d in pat.nodes(data=True)):
        return None          # wildcard patterns are matched partially: outside this model
    raw = SubgraphSearchEngine.find_subgraph_mappings(host=R.graph.raw, pattern=pat, node_attrs=["element", "charge"], edge_attrs=["order"],
                                                      strategy=Strategy.from_string(R.strategy), threshold=R.embed_threshold,
                                                      pre_filter=R.embed_pre_filter)
    if len(raw) > max_raw:
        return {"skipped": "more-than-%d-raw-matches" % max_raw}     # too many single-match replays: the model is not evaluated
    if not raw:
        return None
    ids = sorted(pat.nodes())
    pos = {v: k for k, v in enumerate(ids)}
    labs: Dict[Any, int] = {}
    lab = [labs.setdefault((d.get("element"), d.get("charge"), d.get("aromatic")), len(labs) + 1) for d in (pat.nodes[v] for v in ids)]
    hc = [int(pat.nodes[v].get("hcount", 0) or 0) for v in ids]
    n = len(ids)
    adj = [[0] * n for _ in range(n)]
    for u, v, d in pat.edges(data=True):
        adj[pos[u]][pos[v]] = adj[pos[v]][pos[u]] = chem.o2(d.get("order", 0))
    if any(set(m) != set(ids) for m in raw):
        return None
    keys = []
    for m in raw:
        Rk = make_reactor(substrate, template, invert=invert, strategy=strategy, mode=mode, automorphism=bool(getattr(R, "automorphism", False)))
        _ = Rk.rule, Rk.graph
        Rk._mappings = [dict(m)]
        Rk._flag_pattern_has_explicit_H = flag
        keys.append(keyfn(Rk.smarts_list))
    labs2: Dict[Any, int] = {}
    lab2 = [labs2.setdefault((pat.nodes[v].get("element", "*"), pat.nodes[v].get("charge", 0)), len(labs2) + 1) for v in ids]
    it = {v: k + 1 for k, v in enumerate(pat.nodes())}
    return {"pat": {"n": n, "lab": lab, "hc": hc, "adj": adj}, "pat2": {"n": n, "lab": lab2, "hc": [0] * n, "adj": adj},
            "iter": [it[v] for v in ids], "exact": bool(getattr(R, "automorphism", False)),
            "raw": [[m[p] for p in ids] for m in raw], "keys": keys}


def reaction_keys(smarts: List[str]) -> List[Dict[str, str]]:
    out = []
    for s in smarts:
        x, y = s.split(">>")
        out.append({"r": chem.unmapped(x), "p": chem.unmapped(y)})
    return out

"""Core machinery shared by all property checks.

* run TLC (model checking / case judging / value generation), parse its output
* the Stage pipeline:  inputs -> execute on the real code -> judge with TLC
* evidence, known findings, replay files, exit-code discipline

Exit codes:  0 held (possibly KNOWN-FINDING lines), 1 VIOLATION, 2 machinery failure.
"""
from __future__ import annotations

import concurrent.futures as cf
import hashlib
import json
import multiprocessing as mp
import os
import random
import re
import shutil
import signal
import subprocess
import sys
import tempfile
import time
import traceback
from pathlib import Path
from typing import Any, Callable, Dict, Iterable, List, Optional, Tuple

VERIF = Path(__file__).resolve().parent.parent
SPEC = VERIF / "spec"
EVID = VERIF / "evidence"
REPLAY = VERIF / "replay"
FINDINGS = VERIF / "known_findings.json"
TLA_CP = "/opt/veriftools/tla/tla2tools.jar:/opt/veriftools/tla/CommunityModules-deps.jar"
NCPU = max(1, min(16, os.cpu_count() or 1))


class MachineryError(Exception):
    """Something in the verification machinery itself failed (exit 2)."""


# --------------------------------------------------------------------------
# canonical JSON
# --------------------------------------------------------------------------
def cj(x: Any) -> str:
    return json.dumps(x, sort_keys=True, separators=(",", ":"))


def digest(x: Any) -> str:
    return hashlib.sha256(cj(x).encode()).hexdigest()[:16]


def check_jsonable(x: Any, path: str = "$") -> None:
    """TLC's Json module rejects null and floats; fail early and loudly."""
    if x is None:
        raise MachineryError(f"null at {path} in a case sent to TLC")
    if isinstance(x, bool) or isinstance(x, str):
        return
    if isinstance(x, int):
        if abs(x) >= 2 ** 31:
            raise MachineryError(f"integer {x} at {path} exceeds TLC's 32 bits")
        return
    if isinstance(x, float):
        raise MachineryError(f"float at {path} in a case sent to TLC")
    if isinstance(x, (list, tuple)):
        for i, y in enumerate(x):
            check_jsonable(y, f"{path}[{i}]")
        return
    if isinstance(x, dict):
        for k, y in x.items():
            if not isinstance(k, str):
                raise MachineryError(f"non-string key at {path}")
            check_jsonable(y, f"{path}.{k}")
        return
    raise MachineryError(f"unsupported type {type(x)} at {path}")


# --------------------------------------------------------------------------
# TLC
# --------------------------------------------------------------------------
class TLCResult:
    def __init__(self, rc: int, out: str, wall: float):
        self.rc = rc
        self.out = out
        self.wall = wall
        self.generated = 0
        self.distinct = 0
        m = None
        for m in re.finditer(r"(\d+) states generated, (\d+) distinct states found", out):
            pass
        if m:
            self.generated = int(m.group(1))
            self.distinct = int(m.group(2))
        else:
            # simulation mode
            m2 = None
            for m2 in re.finditer(r"(\d+) states checked", out):
                pass
            if m2:
                self.generated = self.distinct = int(m2.group(1))

    @property
    def ok(self) -> bool:
        return self.rc == 0

    @property
    def invariant_violated(self) -> bool:
        return self.rc in (12, 13)

    def printed(self, tag: str) -> List[List[str]]:
        """Lines printed with PrintT("<tag>|a|b|...") -> [[a, b, ...], ...]."""
        res = []
        pat = re.compile(r'^"' + re.escape(tag) + r'\|(.*)"$')
        for line in self.out.splitlines():
            m = pat.match(line.strip())
            if m:
                res.append(m.group(1).split("|"))
        return res

    def coverage(self) -> Dict[str, int]:
        """Per-action distinct-state counts from `-coverage` output."""
        cov: Dict[str, int] = {}
        for m in re.finditer(r"<(\w+) line \d+, col \d+ to line \d+, col \d+ of module (\w+)>: (\d+):(\d+)", self.out):
            cov[m.group(1)] = max(cov.get(m.group(1), 0), int(m.group(4)))
        return cov


def run_tlc(
    module: str,
    cfg: Optional[str] = None,
    *,
    scratch: Path,
    env: Optional[Dict[str, str]] = None,
    workers: int = 1,
    simulate: Optional[str] = None,
    depth: Optional[int] = None,
    dump: Optional[Path] = None,
    seed: Optional[int] = None,
    coverage: bool = False,
    timeout: int = 3600,
    heap: str = "4g",
    dfs: bool = False,
    defines: Optional[Dict[str, str]] = None,
) -> TLCResult:
    """Run TLC on SPEC/<module>.tla with SPEC/<cfg>.cfg (default <module>.cfg).

    `defines` writes a small wrapper cfg with extra CONSTANT substitutions
    (literal values), so that one module serves several bounds.
    """
    cfgname = cfg or module
    cfgpath = SPEC / f"{cfgname}.cfg"
    if not cfgpath.exists():
        raise MachineryError(f"missing cfg {cfgpath}")
    meta = Path(tempfile.mkdtemp(prefix="tlc-", dir=scratch))
    if defines:
        text = cfgpath.read_text()
        text += "\nCONSTANTS\n" + "\n".join(f"  {k} = {v}" for k, v in defines.items()) + "\n"
        cfgpath = meta / f"{cfgname}.cfg"
        cfgpath.write_text(text)
    cmd = ["java", "-XX:+UseParallelGC", f"-Xmx{heap}", "-Xss256m",   # deep RECURSIVE operators on larger cases
           f"-Djava.io.tmpdir={meta}"]                                 # TLC's own tlc-*/SANY* temp dirs go away with the scratch dir
    if dfs:
        cmd.append("-Dtlc2.tool.queue.IStateQueue=StateDeque")
    cmd += ["-cp", TLA_CP, "tlc2.TLC", "-workers", str(workers), "-metadir", str(meta / "md"),
            "-noGenerateSpecTE", "-config", str(cfgpath)]
    if simulate is not None:
        cmd += ["-simulate", simulate]
    if depth is not None:
        cmd += ["-depth", str(depth)]
    if dump is not None:
        cmd += ["-dump", str(dump)]
    if seed is not None:
        cmd += ["-seed", str(seed)]
    if coverage:
        cmd += ["-coverage", "1"]
    cmd.append(str(SPEC / f"{module}.tla"))
    e = dict(os.environ)
    e.pop("JAVA_TOOL_OPTIONS", None)
    if env:
        e.update(env)
    t0 = time.time()
    try:
        p = subprocess.run(cmd, cwd=str(meta), env=e, stdout=subprocess.PIPE, stderr=subprocess.STDOUT,
                           timeout=timeout, text=True)
    except subprocess.TimeoutExpired:
        subprocess.run(["pkill", "-f", str(meta)], check=False)
        raise MachineryError(f"TLC timed out after {timeout}s on {module}")
    finally:
        shutil.rmtree(meta, ignore_errors=True)
    res = TLCResult(p.returncode, p.stdout, time.time() - t0)
    if res.rc not in (0, 12, 13):
        lines = p.stdout.splitlines()
        first = next((k for k, l in enumerate(lines) if l.startswith("Error:") or "Exception" in l), None)
        head = "\n".join(lines[first:first + 25]) if first is not None else ""
        tail = "\n".join(lines[-15:])
        raise MachineryError(f"TLC failed on {module} (exit {res.rc}):\n{head}\n...\n{tail}")
    return res


def apalache_inductive(ctx: "Ctx", module: str, *, init: str = "Init", ind_init: str = "IndInit", inv: str = "IndInv",
                       expect_step_failure: bool = False, label: Optional[str] = None, timeout: int = 900) -> None:
    """Discharge an inductive invariant with Apalache: Init => Inv (length 0) and Inv /\\ Next => Inv' (length 1).
    With expect_step_failure the induction step must fail (the modelled defect breaks the invariant)."""
    out = Path(tempfile.mkdtemp(prefix="apa-", dir=ctx.scratch))
    t0 = time.time()

    def run(i, length):
        cmd = ["apalache-mc", "check", f"--init={i}", f"--inv={inv}", f"--length={length}", f"--out-dir={out}", f"{module}.tla"]
        e = dict(os.environ)
        e.pop("JAVA_TOOL_OPTIONS", None)
        try:
            p = subprocess.run(cmd, cwd=str(SPEC), env=e, stdout=subprocess.PIPE, stderr=subprocess.STDOUT, timeout=timeout, text=True)
        except subprocess.TimeoutExpired:
            raise MachineryError(f"apalache timed out after {timeout}s on {module}")
        if "EXITCODE: OK" in p.stdout:
            return True
        if "EXITCODE: ERROR (12)" in p.stdout:       # invariant violated
            return False
        raise MachineryError(f"apalache failed on {module}:\n" + p.stdout[-2500:])
    base = run(init, 0)
    step = run(ind_init, 1)
    shutil.rmtree(out, ignore_errors=True)
    name = label or module
    ctx.stage_info[f"apalache:{name}"] = {"init_implies_inv": base, "inv_is_inductive": step, "wall_s": round(time.time() - t0, 1)}
    ctx.checker_cmds.append(f"apalache-mc check --init={ind_init} --inv={inv} --length=1 spec/{module}.tla")
    ctx.obligations = getattr(ctx, "obligations", 0) + 2
    print(f"[{ctx.pid}] apalache {name}: Init=>Inv {base}, Inv/\\Next=>Inv' {step} ({time.time() - t0:.1f}s)", flush=True)
    if not base:
        raise MachineryError(f"{name}: the initial state does not satisfy the inductive invariant")
    if expect_step_failure and step:
        raise MachineryError(f"{name}: the induction step was expected to fail for the modelled defect but did not (vacuous invariant)")
    if not expect_step_failure and not step:
        raise MachineryError(f"{name}: the invariant is not inductive")


def tlc_generate(ctx: "Ctx", module: str, defines: Dict[str, str], cfg: Optional[str] = None,
                 label: Optional[str] = None, timeout: int = 3600, workers: int = NCPU) -> List[Any]:
    """Mode E: let TLC enumerate a bounded value domain; return the JSON carried by `out` in every state."""
    d = Path(tempfile.mkdtemp(prefix="gen-", dir=ctx.scratch))
    dump = d / "states"
    t0 = time.time()
    r = run_tlc(module, cfg, scratch=ctx.scratch, workers=workers, defines=defines, dump=dump, timeout=timeout)
    if not r.ok:
        raise MachineryError(f"generator {module} failed:\n" + r.out[-2000:])
    ctx.add_tlc(r)
    vals = parse_dump_out(Path(str(dump) + ".dump"))
    shutil.rmtree(d, ignore_errors=True)
    name = label or module
    ctx.stage_info[f"tlc-gen:{name}"] = {"states": r.distinct, "values": len(vals), "constants": defines,
                                         "wall_s": round(time.time() - t0, 1)}
    ctx.checker_cmds.append(f"tlc -dump spec/{module}.tla {defines}")
    print(f"[{ctx.pid}] tlc generator {name}: {len(vals)} values ({r.wall:.1f}s)", flush=True)
    if not vals:
        raise MachineryError(f"generator {module} produced nothing")
    return vals


_DUMP_VAR = re.compile(r'^/\\ out = "(.*)"$')


def parse_dump_out(path: Path) -> List[Any]:
    """Extract the JSON carried in variable `out` of every dumped state."""
    res = []
    with open(path) as f:
        for line in f:
            m = _DUMP_VAR.match(line.rstrip("\n"))
            if m:
                s = m.group(1)
                if not s:
                    continue
                s = s.replace('\\"', '"').replace("\\\\", "\\")
                res.append(json.loads(s))
    return res


# --------------------------------------------------------------------------
# context of one check run
# --------------------------------------------------------------------------
class Ctx:
    def __init__(self, pid: str, tier: str, seed: int):
        self.pid = pid
        self.tier = tier
        self.seed = seed
        self.rng = random.Random(f"{pid}-{seed}")
        self.t0 = time.time()
        self.scratch = Path(tempfile.mkdtemp(prefix=f"synkit-verif-{pid}-"))
        self.states = 0
        self.transitions = 0
        self.traces = 0
        self.evaluations = 0
        self.nontrivial: set = set()
        self.samples: List[Any] = []
        self.skipped: Dict[str, int] = {}
        self.stage_info: Dict[str, Any] = {}
        self.violations: List[Dict[str, Any]] = []
        self.known_hits: List[str] = []
        self.known_counts: Dict[str, int] = {}
        self.known_examples: Dict[str, Any] = {}
        self.assumptions: List[str] = []
        self.findings = load_findings()
        self.exhaustive = False
        self.checker_cmds: List[str] = []

    @property
    def quick(self) -> bool:
        return self.tier == "quick"

    def cleanup(self) -> None:
        shutil.rmtree(self.scratch, ignore_errors=True)

    def add_tlc(self, r: TLCResult) -> None:
        self.states += r.distinct
        self.transitions += r.generated

    def skip(self, why: str, n: int = 1) -> None:
        self.skipped[why] = self.skipped.get(why, 0) + n

    def sample(self, x: Any, cap: int = 6) -> None:
        if len(self.samples) < cap:
            s = cj(x)
            if len(s) > 1500:
                s = s[:1500] + "...(truncated)"
                self.samples.append(s)
            else:
                self.samples.append(x)

    # -- violations ---------------------------------------------------------
    def violation(self, stage: str, inp: Any, verdict: str, detail: Any = None) -> None:
        """Record a failing case; decide known finding vs. violation."""
        key = {"stage": stage, "input": inp}
        for f in self.findings:
            if f.get("status") != "known" or f.get("property") != self.pid:
                continue
            if finding_matches(f, stage, inp, verdict):
                msg = f"KNOWN-FINDING: property={self.pid} {f['what']}"
                self.known_counts[msg] = self.known_counts.get(msg, 0) + 1
                if msg not in self.known_hits:
                    self.known_hits.append(msg)
                    print(msg, flush=True)
                    self.known_examples[msg] = inp
                return
        REPLAY.mkdir(exist_ok=True)
        d = REPLAY / self.pid
        d.mkdir(exist_ok=True)
        path = d / f"{stage}-{digest(key)}.json"
        path.write_text(json.dumps({"property": self.pid, "stage": stage, "input": inp,
                                    "verdict": verdict, "detail": detail}, indent=1, sort_keys=True))
        self.violations.append({"stage": stage, "verdict": verdict, "replay": str(path)})
        if len(self.violations) <= int(os.environ.get("VERIF_MAXPRINT", "20")):
            print(f"VIOLATION property={self.pid} replay={path}", flush=True)
            print(f"  stage={stage} failing-clause={verdict}", flush=True)

    # -- evidence -----------------------------------------------------------
    def deviation(self, stage: str, inp: Any, what: str) -> None:
        """A behaviour the specification does not have although no listed property forbids it (stricter conformance clause)."""
        self.deviations = getattr(self, "deviations", 0) + 1
        if self.deviations <= 5:
            d = REPLAY / self.pid
            d.mkdir(parents=True, exist_ok=True)
            path = d / f"deviation-{stage}-{digest(inp)[:16]}.json"
            path.write_text(cj({"stage": stage, "input": inp}))
            print(f"SPEC-DEVIATION check={self.pid} stage={stage} {what} replay={path}", flush=True)

    def write_evidence(self) -> None:
        EVID.mkdir(exist_ok=True)
        cov = {
            "states": self.states,
            "transitions": self.transitions,
            "traces_validated_against_impl": self.traces,
            "samples": self.samples or ["(no case was produced)"],
            "evaluations": self.evaluations,
            "distinct_nontrivial": len(self.nontrivial),
            "rule": "a case is one call (or call history) of the real code with its projected inputs and outputs, "
                    "judged clause by clause by TLC against the TLA+ operators; distinct = distinct canonical JSON; "
                    "non-trivial = the stage's own rule (see stages.*.nontrivial_rule)",
            "exhaustive": self.exhaustive,
            "skipped_precondition": self.skipped,
            "stages": self.stage_info,
            "spec_deviations": getattr(self, "deviations", 0),
            "known_findings_hit": [{"finding": k, "cases": self.known_counts.get(k, 0), "example_input": self.known_examples.get(k)} for k in self.known_hits],
            "checker_cmd": "; ".join(self.checker_cmds[:6]),
        }
        ev = {
            "property_id": self.pid,
            "tier": self.tier,
            "seed": self.seed,
            "level": "model_checking",
            "coverage": cov,
            "assumptions": self.assumptions,
            "wall_s": round(time.time() - self.t0, 2),
            "violations": len(self.violations),
        }
        (EVID / f"{self.pid}.json").write_text(json.dumps(ev, indent=1, sort_keys=True))


# --------------------------------------------------------------------------
# known findings
# --------------------------------------------------------------------------
def load_findings() -> List[Dict[str, Any]]:
    if not FINDINGS.exists():
        return []
    data = json.loads(FINDINGS.read_text())
    return data.get("findings", [])


def finding_matches(f: Dict[str, Any], stage: str, inp: Any, verdict: str) -> bool:
    """A finding names the stage, the failing clause and the specific input(s).

    `inputs` is a list of canonical-JSON digests (or literal inputs) of the failing
    cases; nothing else is suppressed.
    """
    if f.get("stage") not in (None, stage):
        return False
    if f.get("verdict") not in (None, verdict):
        return False
    d = digest(inp)
    if f.get("match") == "verdict":      # identified by call site: the judge's clause name carries the mechanism
        return f.get("verdict") == verdict
    if f.get("match") == "verdict_suffix":
        return verdict.endswith(f.get("verdict_suffix", "\0"))
    if "input_digests" in f and d in f["input_digests"]:
        return True
    if "inputs" in f and any(cj(i) == cj(inp) for i in f["inputs"]):
        return True
    return False


# --------------------------------------------------------------------------
# Stage pipeline: inputs -> real code -> TLC verdicts
# --------------------------------------------------------------------------
class Stage:
    """One conformance stage.

    name        short identifier
    module      TLA+ module in spec/ that judges cases (reads IOEnv.CASES ndjson,
                prints  V|<index>|<verdict>  per case; verdict "ok" or the failing clause,
                "skip:<why>" when the spec decides the precondition does not hold)
    execute     input -> case (runs the real code; must not judge)
    nontrivial  case -> bool
    """

    name = "stage"
    module = ""
    cfg: Optional[str] = None
    nontrivial_rule = ""
    parallel_exec = True
    shard_size = 400
    tlc_timeout = 3600
    tlc_heap = "3g"
    exec_time_limit: Optional[int] = None   # seconds allowed for one execute(); beyond it the case is skipped, never judged

    def inputs(self, ctx: Ctx) -> Iterable[Any]:
        raise NotImplementedError

    def execute(self, inp: Any) -> Any:
        raise NotImplementedError

    def nontrivial(self, case: Any) -> bool:
        return True

    def tags(self, case: Any) -> List[str]:
        """Labels counted per stage in the evidence (vacuity control)."""
        return []

    def env(self, ctx: Ctx) -> Dict[str, str]:
        return {}


class _TimeLimit(BaseException):
    pass


def _on_alarm(signum, frame):
    raise _TimeLimit()


def _exec_one(args):
    stage, inp = args
    limit = getattr(stage, "exec_time_limit", None)
    if limit:
        signal.signal(signal.SIGALRM, _on_alarm)
        signal.alarm(int(limit))
    try:
        return ("ok", stage.execute(inp))
    except _TimeLimit:
        # not a verdict: the call was abandoned, the case is reported as skipped with its reason
        return ("ok", {"_skip": "execution-exceeded-%ds" % int(limit)})
    except MachineryError as e:
        return ("mach", str(e))
    except Exception:
        return ("exc", traceback.format_exc())
    finally:
        if limit:
            signal.alarm(0)


def execute_all(stage: Stage, inputs: List[Any], procs: int = NCPU) -> List[Tuple[str, Any]]:
    if not inputs:
        return []
    if not stage.parallel_exec or len(inputs) < 8 or procs <= 1:
        return [_exec_one((stage, i)) for i in inputs]
    mpctx = mp.get_context("fork")
    chunk = max(1, len(inputs) // (procs * 8))
    with mpctx.Pool(procs) as pool:
        return pool.map(_exec_one, [(stage, i) for i in inputs], chunksize=chunk)


def judge_cases(ctx: Ctx, stage: Stage, cases: List[Any]) -> List[str]:
    """Send cases to TLC (sharded, parallel); return one verdict per case."""
    if not cases:
        return []
    for c in cases[:50]:
        check_jsonable(c)
    shards: List[Tuple[int, Path]] = []
    d = Path(tempfile.mkdtemp(prefix=f"{stage.name}-", dir=ctx.scratch))
    size = stage.shard_size
    nsh = (len(cases) + size - 1) // size
    # balance shards over the cores
    if nsh < NCPU and len(cases) >= 4 * NCPU:
        size = (len(cases) + NCPU - 1) // NCPU
    k = 0
    for off in range(0, len(cases), size):
        p = d / f"shard{k}.ndjson"
        with open(p, "w") as f:
            for c in cases[off:off + size]:
                f.write(cj(c) + "\n")
        shards.append((off, p))
        k += 1
    verdicts: List[Optional[str]] = [None] * len(cases)
    env = stage.env(ctx)

    def run(sh):
        off, p = sh
        e = dict(env)
        e["CASES"] = str(p)
        r = run_tlc(stage.module, stage.cfg, scratch=ctx.scratch, env=e, workers=1,
                    timeout=stage.tlc_timeout, heap=stage.tlc_heap)
        return off, r

    with cf.ThreadPoolExecutor(max_workers=NCPU) as ex:
        for off, r in ex.map(run, shards):
            if not r.ok:
                raise MachineryError(f"TLC judge {stage.module} reported an error:\n" + r.out[-3000:])
            ctx.add_tlc(r)
            for parts in r.printed("V"):
                idx = int(parts[0]) - 1 + off
                verdicts[idx] = "|".join(parts[1:])
    missing = [i for i, v in enumerate(verdicts) if v is None]
    if missing:
        raise MachineryError(f"TLC judge {stage.module}: no verdict for {len(missing)} cases (first index {missing[0]})")
    ctx.checker_cmds.append(f"tlc -config spec/{stage.cfg or stage.module}.cfg spec/{stage.module}.tla  (CASES=<ndjson recorded from the real code>)")
    shutil.rmtree(d, ignore_errors=True)
    return verdicts  # type: ignore


def run_stage(ctx: Ctx, stage: Stage, inputs: Optional[List[Any]] = None) -> None:
    t0 = time.time()
    if inputs is None:
        inputs = list(stage.inputs(ctx))
    results = execute_all(stage, inputs)
    cases, idx = [], []
    info = {"inputs": len(inputs), "judged": 0, "ok": 0, "skipped": 0, "exceptions": 0,
            "nontrivial_rule": stage.nontrivial_rule, "module": stage.module}
    for i, (tag, val) in enumerate(results):
        if tag == "mach":
            raise MachineryError(f"stage {stage.name}: {val}")
        if tag == "exc":
            # an exception escaping the real code on a valid input is reported as a failing case
            info["exceptions"] += 1
            ctx.violation(stage.name, inputs[i], "exception", val[-1500:])
            continue
        if isinstance(val, dict) and val.get("_skip"):
            ctx.skip(f"{stage.name}:{val['_skip']}")
            info["skipped"] += 1
            continue
        cases.append(val)
        idx.append(i)
    verdicts = judge_cases(ctx, stage, cases)
    for c, i, v in zip(cases, idx, verdicts):
        ctx.evaluations += 1
        if v.startswith("MACHINERY:"):
            raise MachineryError(f"stage {stage.name}: the specification's own lemma failed on a case: {v} {cj(inputs[i])[:400]}")
        if v.startswith("skip:"):
            ctx.skip(f"{stage.name}:{v[5:]}")
            info["skipped"] += 1
            continue
        info["judged"] += 1
        ctx.traces += 1
        for t in stage.tags(c):
            info.setdefault("tags", {})
            info["tags"][t] = info["tags"].get(t, 0) + 1
        if stage.nontrivial(c):
            ctx.nontrivial.add(digest(c))
        clauses = [x for x in v.split(";") if x and x != "ok"]
        # a clause named note:... is stricter than any listed property (conformance to the specification's own detail):
        # reported as a deviation from the specification, never as a violation
        for x in clauses:
            if x.startswith("note:"):
                info["spec_deviations"] = info.get("spec_deviations", 0) + 1
                ctx.deviation(stage.name, inputs[i], x[5:])
        clauses = [x for x in clauses if not x.startswith("note:")]
        if not clauses:
            info["ok"] += 1
            if info["ok"] in (1, 17):
                ctx.sample({"stage": stage.name, "case": c})
        else:
            for clause in clauses:
                ctx.violation(stage.name, inputs[i], clause, c)
    info["wall_s"] = round(time.time() - t0, 1)
    ctx.stage_info[stage.name] = info
    print(f"[{ctx.pid}] stage {stage.name}: inputs={info['inputs']} judged={info['judged']} ok={info['ok']} "
          f"skipped={info['skipped']} exceptions={info['exceptions']} ({info['wall_s']}s) {info.get('tags', '')}", flush=True)
    need = getattr(stage, "required_tags", ())
    for t in need:
        if info["judged"] >= 50 and not info.get("tags", {}).get(t):
            raise MachineryError(f"stage {stage.name}: no case with tag {t!r} was explored (vacuous)")
    if info["judged"] == 0 and info["inputs"] > 0 and not info["exceptions"]:
        raise MachineryError(f"stage {stage.name} judged nothing (vacuous)")


def model_check(ctx: Ctx, module: str, cfg: Optional[str] = None, *, expect_violation: bool = False,
                workers: int = NCPU, label: Optional[str] = None, **kw) -> TLCResult:
    """Design-level TLC run. Without expect_violation any invariant violation is a machinery
    error (the *specification* is wrong, which says nothing about the code)."""
    t0 = time.time()
    r = run_tlc(module, cfg, scratch=ctx.scratch, workers=workers, **kw)
    ctx.add_tlc(r)
    name = label or (cfg or module)
    ctx.stage_info[f"tlc:{name}"] = {"states": r.distinct, "transitions": r.generated,
                                     "violation_found": r.invariant_violated, "wall_s": round(time.time() - t0, 1)}
    ctx.checker_cmds.append(f"tlc -config spec/{cfg or module}.cfg spec/{module}.tla")
    print(f"[{ctx.pid}] tlc {name}: distinct={r.distinct} generated={r.generated} "
          f"violation={r.invariant_violated} ({r.wall:.1f}s)", flush=True)
    if expect_violation and not r.invariant_violated:
        raise MachineryError(f"{name}: TLC was expected to find the modelled defect but did not (vacuous model)")
    if not expect_violation and r.invariant_violated:
        raise MachineryError(f"{name}: the specification violates its own invariant:\n" + r.out[-3000:])
    return r

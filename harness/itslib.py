"""Shared drivers for the ITS properties (C01, C02): realise abstract (G, H) pairs, run the real code, project."""
from __future__ import annotations

import random
from typing import Any, Dict, List, Tuple

import networkx as nx

from harness import chem, core

SYM = {1: "H", 2: "C", 3: "O", 4: "N"}
ORD = {0: 0.0, 2: 1.0, 3: 1.5, 4: 2.0, 6: 3.0}


def realise_pair(pair: Dict[str, Any], rng: random.Random, ids=None) -> Tuple[nx.Graph, nx.Graph, List[int]]:
    """abstract pair (generator codes) -> two networkx molecule graphs on shared, shuffled node ids"""
    n = pair["G"]["n"]
    ids = ids or rng.sample(range(1, 3 * n + 6), n)
    out = []
    for side in ("G", "H"):
        M = pair[side]
        g = nx.Graph()
        order = list(range(n))
        rng.shuffle(order)
        for k in order:
            el, ar, hc, ch = M["t"][k]
            g.add_node(ids[k], element=SYM.get(el, "C"), aromatic=bool(ar), hcount=hc, charge=ch, neighbors=[], atom_map=ids[k])
        es = [(u, v) for u in range(n) for v in range(u + 1, n) if M["adj"][u][v]]
        rng.shuffle(es)
        for u, v in es:
            a, b = (ids[u], ids[v]) if rng.random() < 0.5 else (ids[v], ids[u])
            g.add_edge(a, b, order=ORD[M["adj"][u][v]])
        out.append(g)
    return out[0], out[1], ids


def random_pair(rng: random.Random, n: int) -> Dict[str, Any]:
    el = [rng.choice([1, 2, 2, 2, 3, 4]) for _ in range(n)]

    def side():
        t = [[el[v], 0, rng.randint(0, 2), rng.choice([0, 0, 0, 1, -1])] for v in range(n)]
        adj = [[0] * n for _ in range(n)]
        for u in range(n):
            for v in range(u + 1, n):
                if rng.random() < 0.35:
                    adj[u][v] = adj[v][u] = rng.choice([2, 2, 3, 4, 6])
        return {"n": n, "t": t, "adj": adj, "present": [1] * n}
    G = side()
    H = {"n": n, "t": [list(x) for x in G["t"]], "adj": [list(r) for r in G["adj"]], "present": [1] * n}
    for _ in range(rng.randint(0, 4)):      # a few changes: bonds made / broken / reordered, H and charge shifts
        u, v = rng.sample(range(n), 2) if n >= 2 else (0, 0)
        if u != v:
            H["adj"][u][v] = H["adj"][v][u] = rng.choice([0, 2, 3, 4])
        k = rng.randrange(n)
        if rng.random() < 0.4:
            H["t"][k][2] = max(0, H["t"][k][2] + rng.choice([-1, 1]))
        if rng.random() < 0.2:
            H["t"][k][3] = rng.choice([0, 1, -1])
    return {"G": G, "H": H}
